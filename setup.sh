#!/bin/bash
# MANIFEST.setup_cmd: build the harness offline from files on disk only
set -e
cd /verif/harness
export CARGO_NET_OFFLINE=true
cp /repo/Cargo.lock Cargo.lock
mkdir -p /verif/work /verif/evidence /verif/replays
cargo build --offline 2>&1 | tail -3
