//! independent readers (and a small writer) for the raw stored bytes of a repository:
//! AES-256-CTR + Poly1305-AES composed from the primitive crates, own pack trailer decoder, own
//! index JSON structs, own zstd + SHA-256 calls. Nothing here calls into rustic_core's codecs.

use std::collections::{BTreeMap, BTreeSet};

use aes::cipher::{BlockEncrypt, KeyInit, KeyIvInit, StreamCipher};
use bytes::Bytes;
use rustic_core::{FileType, Id, repofile::MasterKey};
use serde::{Deserialize, Serialize};
use sha2::{Digest, Sha256};

use crate::store::StoreState;

type Aes256Ctr = ctr::Ctr64BE<aes::Aes256>;

#[derive(Clone)]
pub struct RawKey {
    pub enc: [u8; 32],
    pub k: [u8; 16],
    pub r: [u8; 16],
}

impl RawKey {
    pub fn from_master(m: &MasterKey) -> Self {
        let mut enc = [0; 32];
        let mut k = [0; 16];
        let mut r = [0; 16];
        enc.copy_from_slice(&m.encrypt);
        k.copy_from_slice(&m.mac.k);
        r.copy_from_slice(&m.mac.r);
        Self { enc, k, r }
    }

    fn tag(&self, nonce: &[u8; 16], ct: &[u8]) -> [u8; 16] {
        // Poly1305-AES: s = AES128_k(nonce); tag = Poly1305_{r,s}(ciphertext)
        let aes = aes::Aes128::new_from_slice(&self.k).unwrap();
        let mut s = aes::Block::clone_from_slice(nonce);
        aes.encrypt_block(&mut s);
        let mut pk = [0u8; 32];
        pk[..16].copy_from_slice(&self.r);
        pk[16..].copy_from_slice(&s);
        let mac = poly1305::Poly1305::new_from_slice(&pk).unwrap();
        let t = mac.compute_unpadded(ct);
        let mut out = [0u8; 16];
        out.copy_from_slice(&t);
        out
    }

    /// message layout: nonce(16) || ciphertext || tag(16)
    pub fn decrypt(&self, msg: &[u8]) -> Result<Vec<u8>, String> {
        if msg.len() < 32 {
            return Err(format!("message too short ({})", msg.len()));
        }
        let mut nonce = [0u8; 16];
        nonce.copy_from_slice(&msg[..16]);
        let ct = &msg[16..msg.len() - 16];
        let tag = &msg[msg.len() - 16..];
        if self.tag(&nonce, ct) != tag {
            return Err("MAC mismatch".to_string());
        }
        let mut pt = ct.to_vec();
        let mut c = Aes256Ctr::new_from_slices(&self.enc, &nonce).unwrap();
        c.apply_keystream(&mut pt);
        Ok(pt)
    }

    pub fn encrypt(&self, nonce: [u8; 16], pt: &[u8]) -> Vec<u8> {
        let mut ct = pt.to_vec();
        let mut c = Aes256Ctr::new_from_slices(&self.enc, &nonce).unwrap();
        c.apply_keystream(&mut ct);
        let tag = self.tag(&nonce, &ct);
        let mut out = Vec::with_capacity(pt.len() + 32);
        out.extend_from_slice(&nonce);
        out.extend_from_slice(&ct);
        out.extend_from_slice(&tag);
        out
    }
}

pub fn sha256(data: &[u8]) -> [u8; 32] {
    let mut h = Sha256::new();
    h.update(data);
    h.finalize().into()
}

pub fn sha_id(data: &[u8]) -> Id {
    Id::new(sha256(data))
}

pub fn id_bytes(id: &Id) -> [u8; 32] {
    let mut b = [0u8; 32];
    hex::decode_to_slice(id.to_hex().as_str(), &mut b).unwrap();
    b
}

/// decode a stored repository file (snapshot / index / config): decrypt, then `{`/`[` = plain JSON,
/// leading 0x02 = zstd
pub fn decode_file(key: &RawKey, stored: &[u8]) -> Result<Vec<u8>, String> {
    let pt = key.decrypt(stored)?;
    match pt.first() {
        Some(b'{' | b'[') => Ok(pt),
        Some(2) => zstd::stream::decode_all(&pt[1..]).map_err(|e| format!("zstd: {e}")),
        other => Err(format!("unknown file format marker {other:?}")),
    }
}

/// encode + name a JSON repository file (uncompressed form). Returns (id, stored bytes).
pub fn encode_file(key: &RawKey, nonce: [u8; 16], json: &[u8]) -> (Id, Bytes) {
    let stored = key.encrypt(nonce, json);
    (sha_id(&stored), stored.into())
}

#[derive(Clone, Debug, Serialize, Deserialize, PartialEq, Eq)]
pub struct RawBlob {
    pub id: Id,
    #[serde(rename = "type")]
    pub tpe: String,
    pub offset: u32,
    pub length: u32,
    #[serde(default, skip_serializing_if = "Option::is_none")]
    pub uncompressed_length: Option<u32>,
}

#[derive(Clone, Debug, Serialize, Deserialize, PartialEq, Eq)]
pub struct RawPack {
    pub id: Id,
    pub blobs: Vec<RawBlob>,
    #[serde(default, skip_serializing_if = "Option::is_none")]
    pub time: Option<String>,
    #[serde(default, skip_serializing_if = "Option::is_none")]
    pub size: Option<u32>,
}

#[derive(Clone, Debug, Default, Serialize, Deserialize, PartialEq, Eq)]
pub struct RawIndex {
    #[serde(default, skip_serializing_if = "Option::is_none")]
    pub supersedes: Option<Vec<Id>>,
    pub packs: Vec<RawPack>,
    #[serde(default, skip_serializing_if = "Vec::is_empty")]
    pub packs_to_delete: Vec<RawPack>,
}

pub fn parse_index(key: &RawKey, stored: &[u8]) -> Result<RawIndex, String> {
    let json = decode_file(key, stored)?;
    serde_json::from_slice(&json).map_err(|e| format!("index json: {e}"))
}

/// all index files of a store
pub fn read_indexes(key: &RawKey, st: &StoreState) -> Result<BTreeMap<Id, RawIndex>, String> {
    let mut m = BTreeMap::new();
    for id in st.ids(FileType::Index) {
        let _ = m.insert(id, parse_index(key, st.get(FileType::Index, &id).unwrap()).map_err(|e| format!("index {id}: {e}"))?);
    }
    Ok(m)
}

#[derive(Clone, Debug, PartialEq, Eq)]
pub struct TrailerEntry {
    pub tpe: u8, // 0 data, 1 tree
    pub compressed: bool,
    pub length: u32,
    pub uncompressed_length: Option<u32>,
    pub id: Id,
}

impl TrailerEntry {
    pub fn type_name(&self) -> &'static str {
        if self.tpe == 0 { "data" } else { "tree" }
    }
}

/// parse the trailer of a pack: last 4 bytes = LE length of the encrypted header before it
pub fn parse_pack_trailer(key: &RawKey, pack: &[u8]) -> Result<(Vec<TrailerEntry>, usize), String> {
    if pack.len() < 4 + 32 {
        return Err(format!("pack too short: {}", pack.len()));
    }
    let n = pack.len();
    let hlen = u32::from_le_bytes([pack[n - 4], pack[n - 3], pack[n - 2], pack[n - 1]]) as usize;
    if hlen + 4 > n || hlen < 32 {
        return Err(format!("bad header length {hlen} for pack of {n} bytes"));
    }
    let hdr = key.decrypt(&pack[n - 4 - hlen..n - 4]).map_err(|e| format!("header: {e}"))?;
    let mut entries = Vec::new();
    let mut i = 0;
    while i < hdr.len() {
        let t = hdr[i];
        let (tpe, compressed, elen) = match t {
            0 => (0, false, 37),
            1 => (1, false, 37),
            2 => (0, true, 41),
            3 => (1, true, 41),
            x => return Err(format!("unknown header entry type {x}")),
        };
        if i + elen > hdr.len() {
            return Err("truncated header entry".to_string());
        }
        let length = u32::from_le_bytes(hdr[i + 1..i + 5].try_into().unwrap());
        let (ul, idoff) = if compressed {
            (Some(u32::from_le_bytes(hdr[i + 5..i + 9].try_into().unwrap())), i + 9)
        } else {
            (None, i + 5)
        };
        let mut idb = [0u8; 32];
        idb.copy_from_slice(&hdr[idoff..idoff + 32]);
        entries.push(TrailerEntry { tpe, compressed, length, uncompressed_length: ul, id: Id::new(idb) });
        i += elen;
    }
    Ok((entries, hlen))
}

/// decode the blob stored at [offset, offset+length) of a pack and verify its id
pub fn decode_blob(key: &RawKey, pack: &[u8], offset: u32, length: u32, ul: Option<u32>, id: &Id) -> Result<Vec<u8>, String> {
    let (o, l) = (offset as usize, length as usize);
    if o + l > pack.len() {
        return Err(format!("blob range {o}+{l} beyond pack size {}", pack.len()));
    }
    let mut pt = key.decrypt(&pack[o..o + l])?;
    if let Some(ul) = ul {
        pt = zstd::stream::decode_all(&pt[..]).map_err(|e| format!("zstd: {e}"))?;
        if pt.len() != ul as usize {
            return Err(format!("uncompressed length {} != recorded {ul}", pt.len()));
        }
    }
    if sha_id(&pt) != *id {
        return Err(format!("blob hash mismatch for {id}"));
    }
    Ok(pt)
}

/// verify one pack completely against an index entry. Returns problems found.
pub fn verify_pack(key: &RawKey, pack_id: &Id, pack: &[u8], idx: Option<&RawPack>) -> Vec<String> {
    let mut p = Vec::new();
    if sha_id(pack) != *pack_id {
        p.push(format!("pack {pack_id}: name is not the SHA-256 of its bytes"));
    }
    let (entries, hlen) = match parse_pack_trailer(key, pack) {
        Ok(x) => x,
        Err(e) => {
            p.push(format!("pack {pack_id}: trailer: {e}"));
            return p;
        }
    };
    let expected_hlen: usize = 32 + entries.iter().map(|e| if e.compressed { 41 } else { 37 }).sum::<usize>();
    if hlen != expected_hlen {
        p.push(format!("pack {pack_id}: header length field {hlen} != computed {expected_hlen}"));
    }
    let blobs_len: usize = entries.iter().map(|e| e.length as usize).sum();
    if blobs_len + hlen + 4 != pack.len() {
        p.push(format!("pack {pack_id}: sum of blob lengths {blobs_len} + header {hlen} + 4 != file size {}", pack.len()));
    }
    let mut off = 0u32;
    for e in &entries {
        if let Err(err) = decode_blob(key, pack, off, e.length, e.uncompressed_length, &e.id) {
            p.push(format!("pack {pack_id}: blob {} at {off}: {err}", e.id));
        }
        off += e.length;
    }
    if let Some(ip) = idx {
        if let Some(sz) = ip.size {
            if sz as usize != pack.len() {
                p.push(format!("pack {pack_id}: index size {sz} != file size {}", pack.len()));
            }
        }
        let mut ib = ip.blobs.clone();
        ib.sort_by_key(|b| b.offset);
        if ib.len() != entries.len() {
            p.push(format!("pack {pack_id}: index lists {} blobs, trailer {}", ib.len(), entries.len()));
        } else {
            let mut off = 0u32;
            for (b, e) in ib.iter().zip(&entries) {
                if b.id != e.id || b.tpe != e.type_name() || b.length != e.length || b.uncompressed_length != e.uncompressed_length || b.offset != off {
                    p.push(format!(
                        "pack {pack_id}: index entry {}:{}@{}+{}({:?}) != trailer {}:{}@{off}+{}({:?})",
                        b.tpe, b.id, b.offset, b.length, b.uncompressed_length,
                        e.type_name(), e.id, e.length, e.uncompressed_length
                    ));
                }
                off += e.length;
            }
        }
    }
    p
}

/// merged view of all index files of a store
#[derive(Default, Debug, Clone)]
pub struct IndexView {
    /// (type, id) -> [(pack, offset, length, ul)] in unmarked packs
    pub blobs: BTreeMap<(String, Id), Vec<(Id, u32, u32, Option<u32>)>>,
    pub packs: BTreeMap<Id, RawPack>,
    pub marked: BTreeMap<Id, RawPack>,
    pub dup_packs: BTreeSet<Id>,
}

pub fn index_view(key: &RawKey, st: &StoreState) -> Result<IndexView, String> {
    let mut v = IndexView::default();
    for (_, ix) in read_indexes(key, st)? {
        for p in ix.packs {
            for b in &p.blobs {
                v.blobs.entry((b.tpe.clone(), b.id)).or_default().push((p.id, b.offset, b.length, b.uncompressed_length));
            }
            if v.packs.insert(p.id, p.clone()).is_some() {
                let _ = v.dup_packs.insert(p.id);
            }
        }
        for p in ix.packs_to_delete {
            let _ = v.marked.insert(p.id, p);
        }
    }
    Ok(v)
}

/// read a blob through the raw index view
pub fn read_blob(key: &RawKey, st: &StoreState, view: &IndexView, tpe: &str, id: &Id) -> Result<Vec<u8>, String> {
    let locs = view.blobs.get(&(tpe.to_string(), *id)).ok_or_else(|| format!("{tpe} blob {id} not in any unmarked pack of the index"))?;
    let mut last = String::new();
    for (pack, off, len, ul) in locs {
        match st.get(FileType::Pack, pack) {
            None => last = format!("pack {pack} listed for {tpe} blob {id} does not exist"),
            Some(p) => match decode_blob(key, p, *off, *len, *ul, id) {
                Ok(b) => return Ok(b),
                Err(e) => last = e,
            },
        }
    }
    Err(last)
}

/// snapshots of a store (decoded JSON values)
pub fn read_snapshots(key: &RawKey, st: &StoreState) -> Result<BTreeMap<Id, serde_json::Value>, String> {
    let mut m = BTreeMap::new();
    for id in st.ids(FileType::Snapshot) {
        let json = decode_file(key, st.get(FileType::Snapshot, &id).unwrap()).map_err(|e| format!("snapshot {id}: {e}"))?;
        let _ = m.insert(id, serde_json::from_slice(&json).map_err(|e| format!("snapshot {id} json: {e}"))?);
    }
    Ok(m)
}

/// all (type, id) reachable from a tree id, by raw parse. Errors if something is unreadable.
pub fn reachable(key: &RawKey, st: &StoreState, view: &IndexView, root: &Id, out: &mut BTreeSet<(String, Id)>) -> Result<(), String> {
    if !out.insert(("tree".to_string(), *root)) {
        return Ok(());
    }
    let data = read_blob(key, st, view, "tree", root)?;
    let v: serde_json::Value = serde_json::from_slice(&data).map_err(|e| format!("tree {root} json: {e}"))?;
    for n in v["nodes"].as_array().cloned().unwrap_or_default() {
        if let Some(sub) = n["subtree"].as_str() {
            let id: Id = sub.parse().map_err(|_| format!("bad subtree id {sub}"))?;
            reachable(key, st, view, &id, out)?;
        }
        if let Some(c) = n["content"].as_array() {
            for b in c {
                let id: Id = b.as_str().unwrap_or("").parse().map_err(|_| "bad content id".to_string())?;
                let _ = out.insert(("data".to_string(), id));
            }
        }
    }
    Ok(())
}

/// conservation: every blob reachable from every snapshot is readable through the raw index
pub fn check_conservation(key: &RawKey, st: &StoreState) -> Vec<String> {
    let mut problems = Vec::new();
    let view = match index_view(key, st) {
        Ok(v) => v,
        Err(e) => return vec![format!("index unreadable: {e}")],
    };
    let snaps = match read_snapshots(key, st) {
        Ok(s) => s,
        Err(e) => return vec![format!("snapshots unreadable: {e}")],
    };
    let mut all = BTreeSet::new();
    for (sid, s) in &snaps {
        let Some(tree) = s["tree"].as_str().and_then(|t| t.parse::<Id>().ok()) else {
            problems.push(format!("snapshot {sid}: no tree id"));
            continue;
        };
        if let Err(e) = reachable(key, st, &view, &tree, &mut all) {
            problems.push(format!("snapshot {sid}: {e}"));
        }
    }
    for (tpe, id) in &all {
        if tpe == "data" {
            if let Err(e) = read_blob(key, st, &view, "data", id) {
                problems.push(format!("data blob {id}: {e}"));
            }
        }
    }
    problems
}
