//! run context, reports, evidence writer, known-findings matcher, replay files, parallel case runner

use std::{
    collections::{BTreeMap, BTreeSet},
    panic::{AssertUnwindSafe, catch_unwind},
    path::PathBuf,
    sync::{
        Mutex,
        atomic::{AtomicU64, Ordering},
    },
    time::Instant,
};

use serde_json::{Value, json};

use crate::rng::Rng;

#[derive(Clone, Copy, Debug, PartialEq, Eq)]
pub enum Tier {
    Quick,
    Thorough,
}

impl Tier {
    pub fn name(self) -> &'static str {
        match self {
            Tier::Quick => "quick",
            Tier::Thorough => "thorough",
        }
    }
    pub fn pick<T>(self, q: T, t: T) -> T {
        match self {
            Tier::Quick => q,
            Tier::Thorough => t,
        }
    }
}

#[derive(Clone, Debug)]
pub struct Ctx {
    pub prop: String,
    pub tier: Tier,
    pub seed: u64,
    pub work: PathBuf,
    /// run only this case (replay)
    pub only_case: Option<u64>,
    pub threads: usize,
    pub verif_root: PathBuf,
    pub started: Instant,
    /// soft time budget in seconds (cases stop being started after it)
    pub budget_s: u64,
    /// offset added to the case index of this run (sub-runs of one check use disjoint case id ranges)
    pub case_base: u64,
}

impl Ctx {
    pub fn rng_for_case(&self, case: u64) -> Rng {
        Rng::new(self.seed).fork(case.wrapping_add(1))
    }
    pub fn case_dir(&self, case: u64) -> PathBuf {
        let d = self.work.join(format!("{}-{}-{}", self.prop, std::process::id(), case));
        let _ = std::fs::remove_dir_all(&d);
        std::fs::create_dir_all(&d).expect("create case dir");
        d
    }
    pub fn out_of_time(&self) -> bool {
        self.started.elapsed().as_secs() > self.budget_s
    }
}

#[derive(Clone, Debug)]
pub struct Violation {
    /// stable signature used to match known findings (no seeds / ids in it)
    pub sig: String,
    pub desc: String,
    pub case: u64,
    pub detail: Value,
}

#[derive(Clone, Debug, Default)]
pub struct Report {
    pub evaluations: u64,
    pub classes: BTreeSet<String>,
    pub samples: Vec<Value>,
    pub violations: Vec<Violation>,
    pub inconclusive: u64,
    pub inconclusive_notes: Vec<String>,
    pub counters: BTreeMap<String, u64>,
    pub sets: BTreeMap<String, BTreeSet<String>>,
    pub notes: Vec<String>,
}

impl Report {
    pub fn new() -> Self {
        Self::default()
    }
    pub fn count(&mut self, k: &str, n: u64) {
        *self.counters.entry(k.to_string()).or_insert(0) += n;
    }
    pub fn max(&mut self, k: &str, n: u64) {
        let e = self.counters.entry(k.to_string()).or_insert(0);
        *e = (*e).max(n);
    }
    pub fn set_add(&mut self, k: &str, v: impl Into<String>) {
        let _ = self.sets.entry(k.to_string()).or_default().insert(v.into());
    }
    pub fn class(&mut self, c: impl Into<String>) {
        let _ = self.classes.insert(c.into());
    }
    pub fn sample(&mut self, v: Value) {
        if self.samples.len() < 6 {
            self.samples.push(v);
        }
    }
    pub fn violation(&mut self, case: u64, sig: impl Into<String>, desc: impl Into<String>, detail: Value) {
        self.violations.push(Violation { sig: sig.into(), desc: desc.into(), case, detail });
    }
    pub fn inconclusive(&mut self, note: impl Into<String>) {
        self.inconclusive += 1;
        if self.inconclusive_notes.len() < 10 {
            self.inconclusive_notes.push(note.into());
        }
    }
    pub fn merge(&mut self, o: Report) {
        self.evaluations += o.evaluations;
        self.classes.extend(o.classes);
        for s in o.samples {
            self.sample(s);
        }
        self.violations.extend(o.violations);
        self.inconclusive += o.inconclusive;
        for n in o.inconclusive_notes {
            if self.inconclusive_notes.len() < 10 {
                self.inconclusive_notes.push(n);
            }
        }
        for (k, v) in o.counters {
            if k.starts_with("max_") {
                self.max(&k, v);
            } else {
                self.count(&k, v);
            }
        }
        for (k, v) in o.sets {
            self.sets.entry(k).or_default().extend(v);
        }
        for n in o.notes {
            if !self.notes.contains(&n) && self.notes.len() < 30 {
                self.notes.push(n);
            }
        }
    }
}

// ---------------------------------------------------------------------------------------------
// panic capture

static PANICS: Mutex<Vec<String>> = Mutex::new(Vec::new());

thread_local! {
    static LAST_PANIC: std::cell::RefCell<Option<String>> = const { std::cell::RefCell::new(None) };
}

/// case numbers currently being executed (all worker threads)
pub static INFLIGHT: Mutex<BTreeSet<u64>> = Mutex::new(BTreeSet::new());

pub fn install_panic_hook() {
    std::panic::set_hook(Box::new(|info| {
        let loc = info.location().map_or_else(|| "?".to_string(), |l| format!("{}:{}", l.file(), l.line()));
        let msg = if let Some(s) = info.payload().downcast_ref::<&str>() {
            (*s).to_string()
        } else if let Some(s) = info.payload().downcast_ref::<String>() {
            s.clone()
        } else {
            "<non-string panic>".to_string()
        };
        let line = format!("{loc}: {msg}");
        // breadcrumb for the driver: a panic inside a rayon::spawn'ed closure of the library aborts the whole process
        // (no unwinding, no verdict from this process); the driver turns the last line into a violation then
        if let Ok(p) = std::env::var("RCV_PANIC_LOG") {
            let inflight: Vec<u64> = INFLIGHT.try_lock().map(|g| g.iter().copied().collect()).unwrap_or_default();
            let rec = json!({"where": loc, "message": msg.chars().take(300).collect::<String>(), "thread": std::thread::current().name().unwrap_or("?"), "cases_in_flight": inflight});
            if let Ok(mut f) = std::fs::OpenOptions::new().create(true).append(true).open(p) {
                let _ = std::io::Write::write_all(&mut f, format!("{rec}\n").as_bytes());
            }
        }
        LAST_PANIC.with(|c| *c.borrow_mut() = Some(line.clone()));
        let mut g = PANICS.lock().unwrap_or_else(std::sync::PoisonError::into_inner);
        if g.len() < 10_000 {
            g.push(line);
        }
    }));
}

pub fn take_last_panic() -> Option<String> {
    LAST_PANIC.with(|c| c.borrow_mut().take())
}

pub fn all_panics() -> Vec<String> {
    PANICS.lock().unwrap_or_else(std::sync::PoisonError::into_inner).clone()
}

pub fn panics_len() -> usize {
    PANICS.lock().unwrap_or_else(std::sync::PoisonError::into_inner).len()
}

/// run `f`, catching a panic of the current thread. Err(location: message) on panic.
pub fn catch<T>(f: impl FnOnce() -> T) -> Result<T, String> {
    let _ = take_last_panic();
    match catch_unwind(AssertUnwindSafe(f)) {
        Ok(v) => Ok(v),
        Err(_) => Err(take_last_panic().unwrap_or_else(|| "panic (no message)".to_string())),
    }
}

/// strip line-specific noise from a panic message so that it can serve as a signature
pub fn panic_sig(p: &str) -> String {
    // keep "file:line" and the first 60 chars of the message with digits squashed
    let (loc, msg) = p.split_once(": ").unwrap_or((p, ""));
    let loc = loc.rsplit("/crates/").next().unwrap_or(loc);
    let msg: String = msg.chars().take(60).map(|c| if c.is_ascii_digit() { '#' } else { c }).collect();
    format!("{loc}: {msg}")
}

// ---------------------------------------------------------------------------------------------
// hook H5 (index flush count), per thread

thread_local! {
    static FLUSH: std::cell::Cell<Option<usize>> = const { std::cell::Cell::new(None) };
}

/// set the index flush count for library commands started on this thread (threads spawned by a check
/// hand the value on with `set_flush(parent_value)`)
pub fn set_flush(n: Option<usize>) {
    FLUSH.with(|c| c.set(n));
    rustic_core::verif::set_index_flush_count(n);
}

pub fn current_flush() -> Option<usize> {
    FLUSH.with(std::cell::Cell::get)
}

pub fn flush_for_case(seed: u64, case: u64) -> Option<usize> {
    let mut r = Rng::new(seed ^ case.wrapping_mul(0x9E37_79B9_7F4A_7C15) ^ 0xF1A5);
    if r.chance(1, 2) { None } else { Some(*r.pick(&[1usize, 2, 3, 5, 13, 40, 200])) }
}

// ---------------------------------------------------------------------------------------------
// parallel case runner

/// run cases 0..n on `ctx.threads` OS threads; each case gets its own rng. A panic escaping a case
/// is reported as a violation with signature `panic:<where>` (the library must never panic; if it is
/// the harness that is wrong, the harness has to be fixed).
pub fn run_cases(ctx: &Ctx, n: u64, f: &(dyn Fn(&Ctx, u64, &mut Rng, &mut Report) + Sync)) -> Report {
    let next = AtomicU64::new(0);
    let total = Mutex::new(Report::new());
    // replay: skip sub-runs whose case id range cannot contain the case
    if let Some(only) = ctx.only_case {
        if only < ctx.case_base || only - ctx.case_base >= n {
            return Report::new();
        }
    }
    let threads = if ctx.only_case.is_some() { 1 } else { ctx.threads.max(1) };
    std::thread::scope(|s| {
        for _ in 0..threads {
            let _ = s.spawn(|| {
                let mut local = Report::new();
                loop {
                    let i = next.fetch_add(1, Ordering::SeqCst);
                    if i >= n {
                        break;
                    }
                    if let Some(only) = ctx.only_case {
                        if i + ctx.case_base != only {
                            continue;
                        }
                    } else if ctx.out_of_time() {
                        local.count("cases_skipped_time_budget", 1);
                        continue;
                    }
                    let mut rng = ctx.rng_for_case(i);
                    let mut rep = Report::new();
                    // hook H5: in half of the cases the indexers of this case write their index file out after a
                    // handful of blobs, as the real code does whenever 5 minutes have passed (derived from the case
                    // number alone so that a replay of the case sees the same value)
                    let fl = flush_for_case(ctx.seed, i + ctx.case_base);
                    set_flush(fl);
                    if let Some(n) = fl {
                        rep.count("cases_with_early_index_flush", 1);
                        rep.set_add("index_flush_counts", n.to_string());
                    }
                    let _ = INFLIGHT.lock().unwrap_or_else(std::sync::PoisonError::into_inner).insert(i + ctx.case_base);
                    let r = catch(|| f(ctx, i, &mut rng, &mut rep));
                    let _ = INFLIGHT.lock().unwrap_or_else(std::sync::PoisonError::into_inner).remove(&(i + ctx.case_base));
                    set_flush(None);
                    if let Err(p) = r {
                        rep.violation(
                            i,
                            format!("panic:{}", panic_sig(&p)),
                            format!("panic escaped case {i}: {p}"),
                            json!({"panic": p}),
                        );
                    }
                    local.merge(rep);
                }
                total.lock().unwrap().merge(local);
            });
        }
    });
    total.into_inner().unwrap()
}

// ---------------------------------------------------------------------------------------------
// known findings

#[derive(Clone, Debug)]
pub struct Known {
    pub property: String,
    pub signature: String,
    pub status: String,
    pub what: String,
}

pub fn load_known(ctx: &Ctx) -> Vec<Known> {
    let p = ctx.verif_root.join("known_findings.json");
    let Ok(s) = std::fs::read_to_string(&p) else { return Vec::new() };
    let Ok(v) = serde_json::from_str::<Value>(&s) else { return Vec::new() };
    v["findings"]
        .as_array()
        .map(|a| {
            a.iter()
                .map(|f| Known {
                    property: f["property"].as_str().unwrap_or("").to_string(),
                    signature: f["signature"].as_str().unwrap_or("").to_string(),
                    status: f["status"].as_str().unwrap_or("").to_string(),
                    what: f["what"].as_str().unwrap_or("").to_string(),
                })
                .collect()
        })
        .unwrap_or_default()
}

pub struct Meta {
    pub level: &'static str,
    pub rule: String,
    pub exhaustive: bool,
    pub assumptions: Vec<String>,
}

/// write evidence, print verdict lines, return the process exit code
pub fn finish(ctx: &Ctx, rep: &Report, meta: &Meta) -> i32 {
    let known = load_known(ctx);
    let mut unlisted: Vec<&Violation> = Vec::new();
    let mut listed: BTreeMap<String, (String, u64)> = BTreeMap::new();
    for v in &rep.violations {
        if let Some(k) = known.iter().find(|k| k.property == ctx.prop && k.status == "open" && k.signature == v.sig) {
            let e = listed.entry(k.signature.clone()).or_insert((k.what.clone(), 0));
            e.1 += 1;
        } else {
            unlisted.push(v);
        }
    }
    // replay files for unlisted violations (first 20 distinct signatures)
    let mut seen = BTreeSet::new();
    let replay_dir = ctx.verif_root.join("replays");
    let _ = std::fs::create_dir_all(&replay_dir);
    let mut lines = Vec::new();
    for v in &unlisted {
        if !seen.insert(v.sig.clone()) || seen.len() > 20 {
            continue;
        }
        let path = replay_dir.join(format!("{}-{}-{}-{:016x}.json", ctx.prop, ctx.tier.name(), ctx.seed, crate::rng::fnv(v.sig.as_bytes()) ^ v.case));
        let body = json!({
            "property": ctx.prop, "tier": ctx.tier.name(), "seed": ctx.seed, "case": v.case,
            "signature": v.sig, "description": v.desc, "detail": v.detail,
        });
        let _ = std::fs::write(&path, serde_json::to_string_pretty(&body).unwrap());
        lines.push(format!("VIOLATION property={} replay={}", ctx.prop, path.display()));
        eprintln!("  violation [{}] case {}: {}", v.sig, v.case, v.desc);
    }
    for (sig, (what, n)) in &listed {
        println!("KNOWN-FINDING: property={} {} [signature {}; seen {} times this run]", ctx.prop, what, sig, n);
    }
    for l in &lines {
        println!("{l}");
    }

    let distinct = rep.classes.len() as u64;
    let mut coverage = json!({
        "evaluations": rep.evaluations,
        "distinct_nontrivial": distinct,
        "rule": meta.rule,
        "samples": rep.samples,
        "exhaustive": meta.exhaustive,
        "inconclusive": rep.inconclusive,
        "inconclusive_notes": rep.inconclusive_notes,
        "known_findings_seen": listed.iter().map(|(k, v)| json!({"signature": k, "count": v.1})).collect::<Vec<_>>(),
        "unlisted_violation_signatures": seen.iter().cloned().collect::<Vec<_>>(),
        "counters": rep.counters,
        "some_classes": rep.classes.iter().take(60).cloned().collect::<Vec<_>>(),
        "notes": rep.notes,
    });
    for (k, v) in &rep.sets {
        coverage[format!("distinct_{k}")] = json!(v.len());
        coverage[format!("some_{k}")] = json!(v.iter().take(12).cloned().collect::<Vec<_>>());
    }
    let ev = json!({
        "property_id": ctx.prop,
        "tier": ctx.tier.name(),
        "seed": ctx.seed,
        "level": meta.level,
        "coverage": coverage,
        "assumptions": meta.assumptions,
        "wall_s": ctx.started.elapsed().as_secs_f64(),
        "violations": unlisted.len(),
    });
    if ctx.only_case.is_none() {
        let dir = ctx.verif_root.join("evidence");
        let _ = std::fs::create_dir_all(&dir);
        let path = dir.join(format!("{}.json", ctx.prop));
        std::fs::write(&path, serde_json::to_string_pretty(&ev).unwrap()).expect("write evidence");
    }
    eprintln!(
        "[{} {} seed={}] evaluations={} distinct_nontrivial={} violations={} known={} inconclusive={} wall={:.1}s",
        ctx.prop,
        ctx.tier.name(),
        ctx.seed,
        rep.evaluations,
        distinct,
        unlisted.len(),
        listed.len(),
        rep.inconclusive,
        ctx.started.elapsed().as_secs_f64()
    );
    if !unlisted.is_empty() {
        1
    } else if ctx.only_case.is_none() && (rep.evaluations == 0 || distinct < 2) {
        eprintln!("BROKEN CHECK: nothing non-trivial was evaluated");
        2
    } else {
        0
    }
}
