//! C06 Chunking is a lossless, bounded, content-defined partition

use std::sync::Arc;

use rustic_core::{
    repofile::{Chunker, ConfigFile},
    verif,
};
use serde_json::json;

use crate::{
    evidence::{Ctx, Meta, Report, catch, panic_sig, run_cases},
    model::{ContentClass, Frag, FragReader, gen_content},
    refimpl::{FastRef, WindowModel, fixed_chunks, fingerprint, rabin_chunks},
    rng::Rng,
};

pub const POLYS: [u64; 4] = [0x003D_A335_8B4D_C173, 0x0025_7D6F_5DE8_7EC1, 0x0032_1A5B_7A3C_9D5B, 0x003A_BC7F_1D2E_4C0F];

fn rabin_cfg(poly: u64, avg: usize, min: usize, max: usize) -> ConfigFile {
    ConfigFile {
        version: 2,
        chunker: Some(Chunker::Rabin),
        chunker_polynomial: format!("{poly:x}"),
        chunk_size: Some(avg),
        chunk_min_size: Some(min),
        chunk_max_size: Some(max),
        ..Default::default()
    }
}

fn fixed_cfg(size: usize) -> ConfigFile {
    ConfigFile { version: 2, chunker: Some(Chunker::FixedSize), chunker_polynomial: format!("{:x}", POLYS[0]), chunk_size: Some(size), ..Default::default() }
}

/// run the library chunker. Ok(Err(e)) = parameters refused / read error; Err = panic
pub fn lib_chunks(cfg: &ConfigFile, data: &Arc<Vec<u8>>, frag: Frag, size_hint: usize) -> Result<Result<Vec<Vec<u8>>, String>, String> {
    let cfg = cfg.clone();
    let data = data.clone();
    catch(move || {
        let it = match verif::chunk_iter(&cfg, FragReader::new(data.clone(), frag), size_hint) {
            Ok(it) => it,
            Err(e) => return Err(format!("refused: {e}")),
        };
        let mut out = Vec::new();
        let mut total = 0usize;
        for c in it {
            match c {
                Ok(c) => {
                    total += c.len();
                    out.push(c);
                    if out.len() > data.len() + 2 || total > data.len() + 1 {
                        return Err("NONTERMINATION: more chunks/bytes than the stream has".to_string());
                    }
                }
                Err(e) => return Err(format!("read error: {e}")),
            }
        }
        Ok(out)
    })
}

/// find a 64-byte window whose fingerprint has `avg-1` low bits zero
fn boundary_window(r: &mut Rng, poly: u64, avg: usize) -> Vec<u8> {
    let mask = (avg as u64).wrapping_sub(1);
    let mut w = r.bytes(64);
    for _ in 0..(avg.min(1 << 18) * 8 + 16) {
        if fingerprint(&w, poly) & mask == 0 {
            return w;
        }
        let i = r.usize_below(64);
        w[i] = r.below(256) as u8;
    }
    w
}

#[derive(Clone, Debug)]
struct Params {
    poly: u64,
    avg: usize,
    min: usize,
    max: usize,
}

fn gen_params(r: &mut Rng, big: bool) -> Params {
    let poly = *r.pick(&POLYS);
    let k = if big { r.range(16, 20) } else { *r.pick(&[0u64, 1, 2, 3, 4, 5, 6, 6, 7, 8, 8, 9, 10, 10, 11, 12, 12, 13, 14]) };
    let avg = 1usize << k;
    let min = match r.below(12) {
        0 => 0,
        1 => 1,
        2 => 63.min(avg),
        3 => 64.min(avg),
        4 => 65.min(avg),
        5 => 4095.min(avg),
        6 => 4096.min(avg),
        7 => 4097.min(avg),
        8 => avg,
        9 => avg / 2,
        _ => r.usize_below(avg + 1),
    };
    let max = match r.below(6) {
        0 => avg,
        1 => avg + 1,
        2 => 2 * avg,
        3 => 8 * avg,
        4 => avg + r.usize_below(4 * avg + 1),
        _ => 4 * avg,
    };
    Params { poly, avg, min, max }
}

fn gen_stream(r: &mut Rng, p: &Params, cap: usize) -> (Vec<u8>, &'static str) {
    let maxlen = (5 * p.max).clamp(64, cap);
    let len = match r.below(10) {
        0 => 0,
        1 => p.min.min(maxlen),
        2 => (p.min + 1).min(maxlen),
        3 => p.max.min(maxlen),
        4 => p.min.saturating_sub(1).min(maxlen),
        _ => r.usize_below(maxlen + 1),
    };
    match r.below(8) {
        0 => (gen_content(r, ContentClass::Zero, len), "zero"),
        1 => (gen_content(r, ContentClass::Constant, len), "constant"),
        2 => (gen_content(r, ContentClass::Periodic, len), "periodic"),
        3 | 4 => {
            // boundary-dense: windows with zero fingerprint spliced at offsets around min and the 4096 buffer
            let mut v = r.bytes(len);
            let n_splice = r.range(1, 12);
            for _ in 0..n_splice {
                let w = boundary_window(r, p.poly, p.avg);
                if len < 64 {
                    break;
                }
                let rnd = r.usize_below(len);
                let base = *r.pick(&[p.min, p.min + 1, p.min + 63, p.min + 64, p.min + 65, 4096, 4096 + p.min, 8192, p.max.saturating_sub(1), rnd]);
                let jitter = r.usize_below(5);
                let end = (base + jitter).clamp(64, len);
                v[end - 64..end].copy_from_slice(&w);
            }
            (v, "boundary-dense")
        }
        _ => (r.bytes(len), "random"),
    }
}

fn lens(c: &[Vec<u8>]) -> Vec<usize> {
    c.iter().map(Vec::len).collect()
}

fn cuts(l: &[usize]) -> Vec<usize> {
    let mut v = Vec::with_capacity(l.len());
    let mut s = 0;
    for x in l {
        s += x;
        v.push(s);
    }
    v
}

fn one_case(_ctx: &Ctx, case: u64, r: &mut Rng, rep: &mut Report, cap: usize, big: bool) {
    // fixed-size cases
    if r.chance(1, 10) {
        let size = *r.pick(&[0usize, 1, 2, 7, 64, 4095, 4096, 4097, 65536]);
        let len = r.usize_below((size * 5).clamp(16, cap) + 1);
        let data = Arc::new(r.bytes(len));
        let cfg = fixed_cfg(size);
        for frag in [Frag::Whole, Frag::Max(1.max(size / 3)), Frag::Random(r.next_u64()), Frag::RandomInterrupted(r.next_u64())] {
            rep.evaluations += 1;
            match lib_chunks(&cfg, &data, frag, len) {
                Err(p) => rep.violation(case, format!("panic:{}", panic_sig(&p)), format!("fixed-size chunker size {size} panicked: {p}"), json!({"size": size, "len": len})),
                Ok(Err(e)) if e.starts_with("refused") => rep.count("fixed_refused", 1),
                Ok(Err(e)) => {
                    if matches!(frag, Frag::RandomInterrupted(_)) && e.contains("read error") {
                        // fixed-size chunker uses read_to_end, which retries on Interrupted; an error here is unexpected
                        rep.violation(case, "fixed:interrupted-not-retried", e, json!({"size": size, "len": len}));
                    } else {
                        rep.violation(case, "fixed:error", e, json!({"size": size, "len": len}));
                    }
                }
                Ok(Ok(ch)) => {
                    let l = lens(&ch);
                    let cat: Vec<u8> = ch.concat();
                    if cat != *data {
                        rep.violation(case, "fixed:lossy", format!("fixed-size {size}: concatenation differs from the stream (len {len})"), json!({"size": size, "len": len, "chunks": l}));
                    } else if l != fixed_chunks(len, size) {
                        rep.violation(case, "fixed:lengths", format!("fixed-size {size}: chunk lengths {l:?}"), json!({"size": size, "len": len}));
                    }
                    if l.len() >= 2 {
                        rep.class(format!("fixed/{size}/{frag:?}").split('(').next().unwrap().to_string());
                    }
                }
            }
        }
        return;
    }

    let p = gen_params(r, big);
    let (stream, sclass) = gen_stream(r, &p, cap);
    let data = Arc::new(stream);
    let cfg = rabin_cfg(p.poly, p.avg, p.min, p.max);
    let pj = json!({"poly": format!("{:x}", p.poly), "avg": p.avg, "min": p.min, "max": p.max, "len": data.len(), "stream": sclass});
    rep.evaluations += 1;
    let base = match lib_chunks(&cfg, &data, Frag::Whole, data.len()) {
        Err(pn) => {
            rep.violation(case, format!("panic:{}", panic_sig(&pn)), format!("rabin chunker panicked with accepted parameters {pj}: {pn}"), pj);
            return;
        }
        Ok(Err(e)) if e.starts_with("refused") => {
            rep.count("params_refused", 1);
            return;
        }
        Ok(Err(e)) => {
            rep.violation(case, if e.starts_with("NONTERM") { "rabin:nontermination" } else { "rabin:error" }, format!("{e} with {pj}"), pj);
            return;
        }
        Ok(Ok(c)) => c,
    };
    let l = lens(&base);
    rep.count("chunks_observed", l.len() as u64);
    rep.count("bytes_chunked", data.len() as u64);
    // (A) lossless
    if base.concat() != *data {
        rep.violation(case, "rabin:lossy", format!("concatenation of chunks differs from the stream, {pj}"), pj.clone());
        return;
    }
    // (B) bounds
    for (i, x) in l.iter().enumerate() {
        let last = i + 1 == l.len();
        if *x > p.max.max(1) || (!last && *x < p.min) || *x == 0 {
            rep.violation(case, "rabin:bounds", format!("chunk {i} has length {x}, outside [{},{}] (last={last}), {pj}", p.min, p.max), pj.clone());
            break;
        }
    }
    // (C) fragmentation independence
    let mut frags = vec![Frag::Random(r.next_u64()), Frag::RandomInterrupted(r.next_u64()), Frag::Max(*r.pick(&[4095usize, 4096, 4097, 63, 64, 65, 2, 3]))];
    if data.len() <= 20_000 {
        frags.push(Frag::Max(1));
    }
    for frag in frags {
        rep.evaluations += 1;
        let hint = *r.pick(&[0usize, data.len(), data.len() / 2, usize::MAX]);
        match lib_chunks(&cfg, &data, frag, hint) {
            Err(pn) => rep.violation(case, format!("panic:{}", panic_sig(&pn)), format!("rabin chunker panicked under {frag:?}: {pn}, {pj}"), pj.clone()),
            Ok(Err(e)) => rep.violation(case, "rabin:frag-error", format!("{e} under {frag:?}, {pj}"), pj.clone()),
            Ok(Ok(c)) => {
                if lens(&c) != l {
                    rep.violation(case, "rabin:frag-dependent", format!("chunk boundaries differ under read fragmentation {frag:?} (size_hint {hint}), {pj}"), json!({"params": pj, "whole": l, "frag": lens(&c)}));
                }
            }
        }
    }
    // (D) reference model
    if p.min >= 1 {
        let fr = FastRef::new(p.poly);
        let strict = fr.chunks(&data, p.avg, p.min, p.max);
        if strict != l {
            let dev = rabin_chunks(&data, p.poly, p.avg, p.min, p.max, WindowModel::Prefill63);
            let first = cuts(&strict).iter().zip(cuts(&l).iter()).position(|(a, b)| a != b).unwrap_or(0);
            if dev == l && p.min >= 64 {
                rep.violation(
                    case,
                    "C06/window63",
                    format!("cut decisions in [min,min+64) use a window that lacks byte min-1 (63-byte prefill); first deviation at chunk {first}, {pj}"),
                    json!({"params": pj, "first_deviating_chunk": first}),
                );
            } else {
                rep.violation(case, "rabin:not-reference", format!("chunk boundaries match neither the reference fingerprint rule nor the known 63-byte-prefill deviation; first deviation at chunk {first}, {pj}"), json!({"params": pj, "lib": l.iter().take(first + 3).collect::<Vec<_>>(), "ref": strict.iter().take(first + 3).collect::<Vec<_>>() }));
            }
        } else {
            rep.count("equal_to_strict_reference", 1);
        }
    }
    // (E) locality: common suffix after different prefixes
    if data.len() >= 2 && r.chance(1, 2) {
        let na = r.usize_below(3 * p.max.min(cap / 4) + 1);
        let pa = r.bytes(na);
        let nb = r.usize_below(3 * p.max.min(cap / 4) + 1);
        let pb = r.bytes(nb);
        let mut sa = pa.clone();
        sa.extend_from_slice(&data);
        let mut sb = pb.clone();
        sb.extend_from_slice(&data);
        let (sa, sb) = (Arc::new(sa), Arc::new(sb));
        rep.evaluations += 1;
        if let (Ok(Ok(ca)), Ok(Ok(cb))) = (lib_chunks(&cfg, &sa, Frag::Whole, 0), lib_chunks(&cfg, &sb, Frag::Whole, 0)) {
            // cut positions relative to the start of the suffix
            let rel = |c: &[Vec<u8>], plen: usize| -> Vec<usize> { cuts(&lens(c)).into_iter().filter(|x| *x >= plen).map(|x| x - plen).collect() };
            let (ra, rb) = (rel(&ca, pa.len()), rel(&cb, pb.len()));
            if let Some(first_common) = ra.iter().find(|x| rb.contains(x)) {
                let ta: Vec<_> = ra.iter().filter(|x| *x >= first_common).collect();
                let tb: Vec<_> = rb.iter().filter(|x| *x >= first_common).collect();
                rep.count("locality_pairs_with_common_cut", 1);
                if ta != tb {
                    rep.violation(case, "rabin:locality", format!("two streams sharing a suffix cut it differently after their first common cut at {first_common}, {pj}"), pj.clone());
                }
            }
        }
    }
    if l.len() >= 2 {
        let mc = if p.min < 64 { "min<64" } else if p.min < 4096 { "min<4096" } else { "min>=4096" };
        let xc = if p.max == p.avg { "max=avg" } else { "max>avg" };
        rep.class(format!("rabin/avg2^{}/{mc}/{xc}/{sclass}", p.avg.trailing_zeros()));
    }
    if case % 997 == 0 {
        rep.sample(json!({"params": pj, "chunk_lengths": l.iter().take(12).collect::<Vec<_>>(), "n_chunks": l.len()}));
    }
}

pub fn run(ctx: &Ctx) -> (Report, Meta) {
    let n = ctx.tier.pick(20_000, 3_000_000);
    let cap = ctx.tier.pick(48 * 1024, 128 * 1024);
    let mut rep = run_cases(ctx, n, &|c, i, r, rep| one_case(c, i, r, rep, cap, false));
    // a few big-parameter cases (default-like sizes)
    let nb = ctx.tier.pick(6, 120);
    let mut ctx2 = ctx.clone();
    ctx2.seed ^= 0xb16;
    let big = { let mut cb = ctx2.clone(); cb.case_base = 1_000_000; run_cases(&cb, nb, &|c, i, r, rep| one_case(c, i + 1_000_000, r, rep, ctx.tier.pick(6, 24) * 1024 * 1024, true)) };
    rep.merge(big);
    let meta = Meta {
        level: "exploration",
        rule: "case = (polynomial, avg=2^k, min, max) accepted by the library x generated stream (random/constant/periodic/zero/boundary-dense) x read fragmentation patterns (whole, <=n bytes, seeded short reads, Interrupted injection) x size hints; oracles: lossless, bounds, fragmentation independence, equality with a table-free GF(2) reference chunker, suffix locality, fixed-size layout. distinct_nontrivial = distinct (avg, min class, max class, stream class) tuples among cases with >= 2 chunks".to_string(),
        exhaustive: false,
        assumptions: vec![
            "chunker reached through hook H1 (verif::chunk_iter), i.e. exactly ChunkIter::from_config as the archiver calls it".to_string(),
            "polynomials are 4 fixed degree-53 values; the reference does not depend on irreducibility".to_string(),
            "min = 0 is excluded from the reference comparison (the property's bounds clause is still checked)".to_string(),
        ],
    };
    (rep, meta)
}
