//! C02 Forget and prune never lose data still referenced by a snapshot

use std::{
    collections::{BTreeMap, BTreeSet},
    sync::Arc,
};

use bytesize::ByteSize;
use rustic_core::{BackupOptions, FileType, Id, ParentOptions, repofile::MasterKey};
use serde_json::json;

use crate::{
    cfggen::{GenCfg, gen_config},
    cmds::{Cmd, Env, Limit, PruneSpec, read_each_snapshot},
    evidence::{Ctx, Meta, Report, catch, panic_sig, run_cases},
    model::{ALL_EDITS, Entry, Frag, Kind, ModelTree, NameClass, TreeParams, apply_edit, gen_tree, pk},
    observe::{CmpOpts, diff_model},
    rawrepo::{RawIndex, RawKey, check_conservation, encode_file, index_view, parse_index, read_indexes},
    repo::{backup_model, check_full, errstr, snap_at},
    rng::Rng,
    store::{Op, StoreState, Universe, ev_desc},
};

pub struct H {
    pub cfg: GenCfg,
    pub key: MasterKey,
    pub uni: Universe,
    pub env: Env,
    pub tp: TreeParams,
    pub model: ModelTree,
    /// snapshot id -> the model it was taken from
    pub snaps: BTreeMap<Id, ModelTree>,
    pub time: i64,
    /// packs that were marked (listed in packs_to_delete) at some point and by which step
    pub ever_marked: BTreeMap<Id, usize>,
    /// pack -> wall-clock second at (or before) which the harness itself saw the pack become marked; independent of
    /// the time the index records for the mark. Time-travel plants move it together with the recorded time.
    pub observed_mark: BTreeMap<Id, i64>,
}

pub fn setup(r: &mut Rng) -> Result<H, String> {
    let mut cfg = gen_config(r);
    while cfg.heavy_compression || cfg.max < 32 {
        cfg = gen_config(r);
    }
    cfg.opts = cfg.opts.set_datapack_size(ByteSize(*r.pick(&[1u64, 500, 2500, 20_000]))).set_treepack_size(ByteSize(*r.pick(&[1u64, 400, 3000])));
    let cap = (cfg.avg * 10).clamp(600, 16_000);
    let mut tp = TreeParams::small(cfg.sizes(r, cap));
    tp.max_entries = 8;
    tp.max_depth = 3;
    tp.name_classes = vec![NameClass::Ascii, NameClass::Utf8, NameClass::Escapes];
    let model = gen_tree(r, &tp);
    let uni = Universe::new(1);
    let key = MasterKey::new();
    let env = Env::single(uni.clone(), key.clone());
    env.init(&cfg, r)?;
    Ok(H { cfg, key, uni, env, tp, model, snaps: BTreeMap::new(), time: 1_700_000_000, ever_marked: BTreeMap::new(), observed_mark: BTreeMap::new() })
}

impl H {
    pub fn rk(&self) -> RawKey {
        RawKey::from_master(&self.key)
    }

    pub fn backup(&mut self, force: bool) -> Result<Id, String> {
        self.time += 100;
        let repo = self.env.ids()?;
        let mut opts = BackupOptions::default();
        if force {
            opts = opts.parent_opts(ParentOptions::default().force(true));
        }
        let s = backup_model(&repo, &self.model, Frag::Whole, &opts, snap_at(self.time, "h")).map_err(|e| format!("backup: {}", errstr(&e)))?;
        let _ = self.snaps.insert(*s.id, self.model.clone());
        Ok(*s.id)
    }

    /// rewrite all index files through `f` (raw, re-encrypted with fresh nonces)
    pub fn rewrite_indexes(&self, r: &mut Rng, f: &mut dyn FnMut(&mut Vec<RawIndex>)) -> Result<(), String> {
        let rk = self.rk();
        let st = self.uni.state(0);
        let mut files: Vec<RawIndex> = read_indexes(&rk, &st)?.into_values().collect();
        f(&mut files);
        let mut g = self.uni.lock();
        for id in st.ids(FileType::Index) {
            let _ = g.stores[0].del(FileType::Index, &id);
        }
        for fl in files {
            if fl.packs.is_empty() && fl.packs_to_delete.is_empty() {
                continue;
            }
            let mut nonce = [0u8; 16];
            r.fill(&mut nonce);
            let (id, bytes) = encode_file(&rk, nonce, &serde_json::to_vec(&fl).unwrap());
            let _ = g.stores[0].put(FileType::Index, &id, bytes);
        }
        Ok(())
    }
}

#[derive(Debug, Clone)]
enum Plant {
    DuplicateIndexFile,
    PackInTwoIndexFiles,
    PackBothUsedAndMarked,
    UnreferencedPack,
    AgeMarkedPacks { deletable: bool },
    /// the repository is older than keep-delete: every pack was created two days ago
    AgeAllPacks,
    DuplicateBlobsAcrossPacks,
    TreeDataIdCollision,
}

fn now_ts_string(offset_s: i64) -> String {
    let t = rustic_core::jiff::Timestamp::now().as_second() + offset_s;
    rustic_core::jiff::Timestamp::new(t, 0).unwrap().to_string()
}

fn plant(h: &mut H, r: &mut Rng, p: &Plant) -> Result<bool, String> {
    match p {
        Plant::DuplicateIndexFile => {
            let mut done = false;
            h.rewrite_indexes(r, &mut |files| {
                if let Some(f) = files.first().cloned() {
                    files.push(f);
                    done = true;
                }
            })?;
            Ok(done)
        }
        Plant::PackInTwoIndexFiles => {
            let mut done = false;
            h.rewrite_indexes(r, &mut |files| {
                if let Some(p) = files.iter().flat_map(|f| f.packs.iter()).next().cloned() {
                    files.push(RawIndex { supersedes: None, packs: vec![p], packs_to_delete: vec![] });
                    done = true;
                }
            })?;
            Ok(done)
        }
        Plant::PackBothUsedAndMarked => {
            let mut done = false;
            let ts = now_ts_string(-10);
            let mut which = None;
            h.rewrite_indexes(r, &mut |files| {
                if let Some(mut p) = files.iter().flat_map(|f| f.packs.iter()).next().cloned() {
                    p.time = Some(ts.clone());
                    which = Some(p.id);
                    files.push(RawIndex { supersedes: None, packs: vec![], packs_to_delete: vec![p] });
                    done = true;
                }
            })?;
            if let Some(id) = which {
                let _ = h.observed_mark.entry(id).or_insert(rustic_core::jiff::Timestamp::now().as_second() - 10);
            }
            Ok(done)
        }
        Plant::UnreferencedPack => {
            // leftovers of an interrupted backup: run a backup of extra data on a copy, keep only its new packs
            let copy = Universe::from_states(h.uni.snapshot());
            copy.lock().recording = false;
            let env2 = Env::single(copy.clone(), h.key.clone());
            let mut m = ModelTree::new();
            m.insert(pk("leftover.bin"), Entry { kind: Kind::File(Arc::new(r.bytes(h.cfg.max * 2 + 17))), mode: 0o644, mtime: (1_600_000_000, 0), hardlink: None });
            let repo = env2.ids()?;
            let _ = backup_model(&repo, &m, Frag::Whole, &BackupOptions::default(), snap_at(1, "x")).map_err(|e| errstr(&e))?;
            let before: BTreeSet<Id> = h.uni.state(0).ids(FileType::Pack).into_iter().collect();
            let st2 = copy.state(0);
            let mut n = 0;
            let mut g = h.uni.lock();
            for id in st2.ids(FileType::Pack) {
                if !before.contains(&id) {
                    let _ = g.stores[0].put(FileType::Pack, &id, st2.get(FileType::Pack, &id).unwrap().clone());
                    n += 1;
                }
            }
            Ok(n > 0)
        }
        Plant::AgeMarkedPacks { deletable } => {
            // time travel: move the mark time of every marked pack to (now - 1h) -/+ a margin
            let ts = if *deletable { now_ts_string(-3600 - 120) } else { now_ts_string(-3600 + 600) };
            let mut done = false;
            let mut ids = Vec::new();
            h.rewrite_indexes(r, &mut |files| {
                for f in files.iter_mut() {
                    for p in &mut f.packs_to_delete {
                        p.time = Some(ts.clone());
                        ids.push(p.id);
                        done = true;
                    }
                }
            })?;
            let t = ts.parse::<rustic_core::jiff::Timestamp>().map(|t| t.as_second()).unwrap_or(0);
            for id in ids {
                let _ = h.observed_mark.insert(id, t);
            }
            Ok(done)
        }
        Plant::AgeAllPacks => {
            let ts = now_ts_string(-2 * 86_400);
            let mut done = false;
            h.rewrite_indexes(r, &mut |files| {
                for f in files.iter_mut() {
                    for p in &mut f.packs {
                        p.time = Some(ts.clone());
                        done = true;
                    }
                }
            })?;
            Ok(done)
        }
        Plant::DuplicateBlobsAcrossPacks => {
            // store the current content again in a state whose index is hidden, then merge packs + index back
            let st = h.uni.snapshot();
            let mut hidden = st.clone();
            for id in hidden[0].ids(FileType::Index) {
                let _ = hidden[0].del(FileType::Index, &id);
            }
            for id in hidden[0].ids(FileType::Snapshot) {
                let _ = hidden[0].del(FileType::Snapshot, &id);
            }
            let copy = Universe::from_states(hidden);
            copy.lock().recording = false;
            let env2 = Env::single(copy.clone(), h.key.clone());
            let repo = env2.ids()?;
            let _ = backup_model(&repo, &h.model, Frag::Whole, &BackupOptions::default(), snap_at(2, "x")).map_err(|e| errstr(&e))?;
            let st2 = copy.state(0);
            let mut g = h.uni.lock();
            let mut n = 0;
            for t in [FileType::Pack, FileType::Index] {
                for id in st2.ids(t) {
                    if !g.stores[0].has(t, &id) {
                        let _ = g.stores[0].put(t, &id, st2.get(t, &id).unwrap().clone());
                        n += 1;
                    }
                }
            }
            Ok(n > 0)
        }
        Plant::TreeDataIdCollision => {
            // a file whose content is the serialized tree of an existing directory: data blob and tree blob share an id
            let trees = crate::props::c01::stored_tree_blobs(&h.uni, &h.key);
            let Some(tb) = trees.iter().max_by_key(|t| t.len()).cloned() else { return Ok(false) };
            if tb.len() > h.cfg.min.max(1) && h.cfg.rabin {
                // must stay one chunk: only possible if shorter than the minimum chunk size... otherwise the
                // chunker may split it; use it only when it fits into one chunk for sure
                if tb.len() > h.cfg.min {
                    return Ok(false);
                }
            }
            if !h.cfg.rabin && tb.len() > h.cfg.avg {
                return Ok(false);
            }
            h.model.insert(pk("collide_with_tree"), Entry { kind: Kind::File(Arc::new(tb)), mode: 0o644, mtime: (1_600_000_300, 0), hardlink: None });
            let _ = h.backup(true)?;
            Ok(true)
        }
    }
}

/// (1)+(3): all snapshots read back equal to their source, raw conservation
fn read_oracle(h: &H, r: &mut Rng) -> Vec<(String, String)> {
    let mut out = Vec::new();
    match read_each_snapshot(&h.env, r) {
        Err(e) => out.push(("repository-unreadable".to_string(), e)),
        Ok(m) => {
            for (id, (_, o)) in &m {
                let Some(model) = h.snaps.get(id) else { continue };
                match o {
                    Err(e) => {
                        let sig = if e.contains("not found in index") || e.contains("not contained in index") { "snapshot-lost:blob-not-indexed" } else if e.contains("does not exist") { "snapshot-lost:pack-missing" } else { "snapshot-lost" };
                        out.push((sig.to_string(), format!("snapshot {id} can no longer be read: {e}")));
                    }
                    Ok(obs) => {
                        if let Some(d) = diff_model(model, obs, CmpOpts::ALL).first() {
                            out.push(("snapshot-content-changed".to_string(), format!("snapshot {id}: {d}")));
                        }
                    }
                }
            }
            for id in h.snaps.keys() {
                if !m.contains_key(id) && h.uni.state(0).has(FileType::Snapshot, id) {
                    out.push(("snapshot-not-listed".to_string(), format!("snapshot {id} exists but was not returned")));
                }
            }
        }
    }
    for p in check_conservation(&h.rk(), &h.uni.state(0)).into_iter().take(2) {
        out.push(("raw-conservation".to_string(), p));
    }
    out
}

fn marked_packs(rk: &RawKey, st: &StoreState) -> BTreeMap<Id, Option<String>> {
    let mut m = BTreeMap::new();
    for id in st.ids(FileType::Index) {
        if let Ok(ix) = parse_index(rk, st.get(FileType::Index, &id).unwrap()) {
            for p in ix.packs_to_delete {
                let _ = m.insert(p.id, p.time);
            }
        }
    }
    m
}

fn history(_ctx: &Ctx, case: u64, r: &mut Rng, rep: &mut Report) {
    let mut h = match setup(r) {
        Ok(h) => h,
        Err(e) => {
            rep.inconclusive(format!("setup: {e}"));
            return;
        }
    };
    let rk = h.rk();
    let n = r.range(4, 12) as usize;
    let mut log_desc: Vec<String> = Vec::new();
    let mut stale: Option<crate::repo::RepoIds> = None;
    let mut stale_model: Option<ModelTree> = None;
    // 1 history in 3 plays in a repository that is older than keep-delete
    let aged_repo = r.chance(1, 3);
    let mut probe: Option<PruneSpec> = None;
    // 1 history in 4 starts with the recover scenario played out in full: a handle loads its index, the snapshot is
    // forgotten and a marking prune runs, the handle then backs the same content up again (deduplicating against packs
    // that are marked by now), and the next prune has to bring those packs back
    if r.chance(1, 4) {
        let cfg_desc = h.cfg.desc.clone();
        let detail = move |log_desc: &Vec<String>| json!({"config": cfg_desc, "history": log_desc});
        let res: Result<(), (String, String)> = (|| {
            let first = h.backup(true).map_err(|e| ("backup-error".to_string(), e))?;
            let m = h.model.clone();
            log_desc.push("backup-force".to_string());
            let handle = h.env.ids().map_err(|e| ("open".to_string(), e))?;
            log_desc.push("open-handle-A (index loaded)".to_string());
            let repo = h.env.open().map_err(|e| ("open".to_string(), e))?;
            repo.delete_snapshots(&[first.into()]).map_err(|e| ("forget-error".to_string(), errstr(&e)))?;
            let _ = h.snaps.remove(&first);
            log_desc.push("forget 1 of 1".to_string());
            let mut spec = PruneSpec::default_safe();
            spec.max_unused = Limit::Pct(0);
            let cmd = Cmd::Prune { spec };
            log_desc.push(cmd.name());
            let t0 = rustic_core::jiff::Timestamp::now().as_second();
            match cmd.run(&h.env) {
                Ok(Ok(())) => {}
                other => return Err(("prune-error-on-consistent-repository".to_string(), format!("{other:?}"))),
            }
            for id in marked_packs(&rk, &h.uni.state(0)).keys() {
                let _ = h.observed_mark.insert(*id, t0);
            }
            h.time += 100;
            log_desc.push("backup through handle-A (stale index)".to_string());
            let s = backup_model(&handle, &m, Frag::Whole, &BackupOptions::default().parent_opts(ParentOptions::default().force(true)), snap_at(h.time, "A")).map_err(|e| ("backup-error".to_string(), errstr(&e)))?;
            let _ = h.snaps.insert(*s.id, m);
            rep.count("stale_index_backups", 1);
            let cmd = Cmd::Prune { spec: PruneSpec::default_safe() };
            log_desc.push(format!("{} (recover)", cmd.name()));
            match cmd.run(&h.env) {
                Ok(Ok(())) => {}
                other => return Err(("recover-prune-failed".to_string(), format!("the prune after a stale-index backup failed: {other:?}"))),
            }
            rep.count("recover_scenarios_played", 1);
            Ok(())
        })();
        if let Err((sig, e)) = res {
            rep.violation(case, sig, e, detail(&log_desc));
            return;
        }
        rep.evaluations += 1;
        if let Some((sig, d)) = read_oracle(&h, r).into_iter().next() {
            rep.violation(case, sig, format!("after the recover scenario: {d}"), json!({"config": h.cfg.desc, "history": log_desc}));
            return;
        }
    }
    for step in 0..n {
        let cfg_desc = h.cfg.desc.clone();
        let detail = move |log_desc: &Vec<String>| json!({"config": cfg_desc, "history": log_desc});
        if step == 2 && aged_repo {
            if let Ok(true) = plant(&mut h, r, &Plant::AgeAllPacks) {
                log_desc.push("plant AgeAllPacks".to_string());
                rep.set_add("anomalies_planted", "AgeAllPacks".to_string());
            }
        }
        let choice = if step < 2 {
            0
        } else if probe.is_some() {
            15
        } else {
            r.below(16)
        };
        match choice {
            0..=4 => {
                for _ in 0..r.range(0, 3) {
                    let k = r.pick(&ALL_EDITS).clone();
                    let _ = apply_edit(r, &mut h.model, &k, &h.tp);
                }
                let force = r.chance(1, 2);
                log_desc.push(format!("backup{}", if force { "-force" } else { "" }));
                if let Err(e) = h.backup(force) {
                    rep.violation(case, "backup-error", e, detail(&log_desc));
                    return;
                }
            }
            5 | 6 => {
                let ids: Vec<Id> = h.uni.state(0).ids(FileType::Snapshot);
                let sel = r.subset(&ids, 1, 2);
                log_desc.push(format!("forget {} of {}", sel.len(), ids.len()));
                if let Ok(repo) = h.env.open() {
                    let sids: Vec<rustic_core::repofile::SnapshotId> = sel.iter().map(|i| (*i).into()).collect();
                    if let Err(e) = repo.delete_snapshots(&sids) {
                        rep.violation(case, "forget-error", errstr(&e), detail(&log_desc));
                    }
                }
                for s in sel {
                    let _ = h.snaps.remove(&s);
                }
            }
            7 => {
                let p = r.pick(&[
                    Plant::DuplicateIndexFile,
                    Plant::PackInTwoIndexFiles,
                    Plant::PackBothUsedAndMarked,
                    Plant::UnreferencedPack,
                    Plant::AgeMarkedPacks { deletable: true },
                    Plant::AgeMarkedPacks { deletable: false },
                    Plant::DuplicateBlobsAcrossPacks,
                    Plant::TreeDataIdCollision,
                ])
                .clone();
                if matches!(p, Plant::AgeMarkedPacks { deletable: true }) && stale.take().is_some() {
                    stale_model = None;
                    log_desc.push("close-handle-A (marks aged beyond keep-delete)".to_string());
                }
                match plant(&mut h, r, &p) {
                    Ok(true) => {
                        log_desc.push(format!("plant {p:?}"));
                        rep.set_add("anomalies_planted", format!("{p:?}").split(' ').next().unwrap().to_string());
                    }
                    Ok(false) => {}
                    Err(e) => rep.inconclusive(format!("plant {p:?}: {e}")),
                }
            }
            8 => {
                // a handle that loads its index now and backs up later (stale index)
                if stale.is_none() {
                    if let Ok(repo) = h.env.ids() {
                        stale = Some(repo);
                        stale_model = Some(h.snaps.values().next().cloned().unwrap_or_else(|| h.model.clone()));
                        log_desc.push("open-handle-A (index loaded)".to_string());
                    }
                }
            }
            9 => {
                if let (Some(repo), Some(m)) = (stale.take(), stale_model.take()) {
                    h.time += 100;
                    log_desc.push("backup through handle-A (stale index)".to_string());
                    match backup_model(&repo, &m, Frag::Whole, &BackupOptions::default().parent_opts(ParentOptions::default().force(true)), snap_at(h.time, "A")) {
                        Ok(s) => {
                            let _ = h.snaps.insert(*s.id, m);
                            rep.count("stale_index_backups", 1);
                            // blobs reused from packs that were marked meanwhile are only brought back by the NEXT
                            // prune (that is what the property promises), so run one before judging readability
                            let cmd = Cmd::Prune { spec: PruneSpec::default_safe() };
                            log_desc.push(format!("{} (recover)", cmd.name()));
                            match cmd.run(&h.env) {
                                Ok(Ok(())) => {}
                                other => rep.violation(case, "recover-prune-failed", format!("the prune after a stale-index backup failed: {other:?}"), detail(&log_desc)),
                            }
                        }
                        Err(e) => rep.violation(case, "backup-error", errstr(&e), detail(&log_desc)),
                    }
                }
            }
            10 if h.cfg.version == 2 && probe.is_none() => {
                // compression switched on/off mid-history: later repacks merge compressed and uncompressed blobs
                let lvl = *r.pick(&[0, 0, 1, 3, -3]);
                let big = bytesize::ByteSize(r.range(2000, 40_000));
                let cmd = Cmd::ApplyConfig { opts: rustic_core::ConfigOptions::default().set_compression(lvl).set_datapack_size(big).set_treepack_size(big) };
                log_desc.push(cmd.name());
                match cmd.run(&h.env) {
                    Ok(Ok(())) => rep.count("compression_or_pack_size_changes", 1),
                    other => rep.violation(case, "config-change-failed", format!("{other:?}"), detail(&log_desc)),
                }
            }
            _ => {
                // prune
                let is_probe = probe.is_some();
                let mut spec = match probe.take() {
                    Some(s) => s,
                    None => {
                        let mut spec = PruneSpec::generate(r, h.cfg.version == 2);
                        if r.chance(1, 2) {
                            spec.max_unused = Limit::Pct(0);
                        }
                        spec
                    }
                };
                let _ = &mut spec;
                // premise of the stale-index scenario: packs stay for longer than the slow backup takes.
                // A prune that deletes at once (instant-delete, keep-delete 0) ends the scenario.
                if spec.instant_delete || spec.keep_delete_h == 0 {
                    if stale.take().is_some() {
                        stale_model = None;
                        log_desc.push("close-handle-A (premise: keep-delete must exceed the backup duration)".to_string());
                    }
                }
                let before = h.uni.state(0);
                let marked_before = marked_packs(&rk, &before);
                let refs_before_problems = check_conservation(&rk, &before);
                let cmd = Cmd::Prune { spec: spec.clone() };
                log_desc.push(cmd.name());
                h.uni.clear_log();
                let t_prune_start = rustic_core::jiff::Timestamp::now().as_second();
                let res = cmd.run(&h.env);
                let t_prune_end = rustic_core::jiff::Timestamp::now().as_second();
                rep.evaluations += 1;
                let log = h.uni.take_log();
                rep.count("prune_storage_events", log.len() as u64);
                match &res {
                    Err(p) => {
                        rep.violation(case, format!("panic:{}", panic_sig(p)), format!("prune panicked: {p}"), detail(&log_desc));
                        return;
                    }
                    Ok(Err(e)) => {
                        // a prune that refuses to run is not data loss; remember why
                        rep.set_add("prune_errors", e.chars().take(100).collect::<String>());
                        if refs_before_problems.is_empty() {
                            rep.violation(case, "prune-error-on-consistent-repository", format!("prune failed on a repository whose snapshots are all readable: {e}"), detail(&log_desc));
                        }
                    }
                    Ok(Ok(())) => {}
                }
                // (4) two-phase delete from the storage log
                let removed: Vec<Id> = log.iter().filter(|e| e.op == Op::Remove && e.tpe == FileType::Pack && e.applied).map(|e| e.id).collect();
                rep.count("packs_removed_by_prune", removed.len() as u64);
                let keep_delete_s = spec.keep_delete_h * 3600;
                for pid in &removed {
                    if spec.instant_delete {
                        continue;
                    }
                    match marked_before.get(pid) {
                        None => {
                            rep.violation(case, "two-phase:removed-unmarked-pack", format!("non-instant prune removed pack {pid} that was not marked for deletion in the index it read"), detail(&log_desc));
                        }
                        Some(t) => {
                            let mark = t.as_ref().and_then(|s| s.parse::<rustic_core::jiff::Timestamp>().ok()).map(|t| t.as_second());
                            if let Some(mt) = mark {
                                if mt + keep_delete_s > t_prune_start + 2 {
                                    rep.violation(case, "two-phase:removed-before-keep-delete", format!("pack {pid} was marked at {mt} and removed at ~{t_prune_start} although keep-delete is {} h", spec.keep_delete_h), detail(&log_desc));
                                }
                            } else {
                                rep.violation(case, "two-phase:removed-without-time", format!("pack {pid} removed although its mark carries no time"), detail(&log_desc));
                            }
                        }
                    }
                    // the same judged against the harness's own observation of when the pack became marked
                    if let Some(om) = h.observed_mark.get(pid) {
                        rep.count("removals_judged_against_observed_mark_time", 1);
                        if om + keep_delete_s > t_prune_end + 2 {
                            rep.violation(
                                case,
                                "two-phase:removed-before-keep-delete-observed",
                                format!("pack {pid} became marked for deletion no earlier than {om} (observed by the harness) and was removed by a prune that ended at {t_prune_end} although keep-delete is {} h; the index recorded the mark time {:?}", spec.keep_delete_h, marked_before.get(pid)),
                                detail(&log_desc),
                            );
                        }
                    }
                }
                if !removed.is_empty() {
                    rep.set_add("removal_kinds", if spec.instant_delete { "instant" } else { "aged-marked" });
                }
                let after = h.uni.state(0);
                let marked_after = marked_packs(&rk, &after);
                let mut newly_marked = 0;
                for id in marked_after.keys() {
                    let _ = h.ever_marked.entry(*id).or_insert(step);
                    if !marked_before.contains_key(id) {
                        newly_marked += 1;
                        let _ = h.observed_mark.insert(*id, t_prune_start);
                    }
                }
                h.observed_mark.retain(|id, _| marked_after.contains_key(id));
                // a second prune inside the keep-delete window must leave the packs that were just marked alone
                if newly_marked > 0 && !is_probe && !spec.instant_delete && r.chance(1, 2) {
                    let mut p = PruneSpec::default_safe();
                    p.keep_delete_h = 1;
                    probe = Some(p);
                    rep.count("second_prune_inside_keep_delete_window", 1);
                }
                rep.count("packs_marked_seen", marked_after.len() as u64);
                // (5) recover: after a successful prune no marked pack holds a blob that a snapshot needs and no unmarked pack provides
                if res.as_ref().is_ok_and(Result::is_ok) {
                    if let Ok(view) = index_view(&rk, &after) {
                        let recovered = marked_before.keys().filter(|p| view.packs.contains_key(*p) && !view.marked.contains_key(*p)).count();
                        rep.count("packs_recovered", recovered as u64);
                        if recovered > 0 {
                            rep.set_add("removal_kinds", "recovered");
                        }
                    }
                }
                let class = format!(
                    "prune/{}{}{}{}/{}",
                    if spec.instant_delete { "instant" } else if spec.keep_delete_h == 0 { "keepdel0" } else { "keepdel1h" },
                    if spec.repack_all { "+all" } else { "" },
                    if spec.fast_repack { "+fast" } else { "" },
                    if spec.repack_uncompressed { "+uncompr" } else { "" },
                    if log.iter().any(|e| e.op == Op::Write && e.tpe == FileType::Pack) { "repacked" } else if removed.is_empty() { "noop-or-mark" } else { "deleted" }
                );
                rep.class(class);
                // (2) check
                match catch(|| h.env.open().and_then(|repo| check_full(&repo).map_err(|e| errstr(&e)))) {
                    Err(p) => rep.violation(case, format!("panic:{}", panic_sig(&p)), format!("check panicked after prune: {p}"), detail(&log_desc)),
                    Ok(Err(e)) => rep.violation(case, "check-error-after-prune", e, detail(&log_desc)),
                    Ok(Ok(errs)) => {
                        if let Some(e) = errs.first() {
                            rep.violation(case, "check-reports-after-prune", format!("check reports after prune: {e}"), detail(&log_desc));
                        }
                    }
                }
                let _ = ev_desc;
            }
        }
        // (1)+(3) after every step
        rep.evaluations += 1;
        let probs = read_oracle(&h, r);
        if let Some((sig, d)) = probs.into_iter().next() {
            rep.violation(case, sig, format!("after step {step} ({}): {d}", log_desc.last().cloned().unwrap_or_default()), json!({"config": h.cfg.desc, "history": log_desc}));
            return;
        }
    }
    // final: a safe prune and everything must still be there
    let cmd = Cmd::Prune { spec: PruneSpec::default_safe() };
    log_desc.push(format!("final {}", cmd.name()));
    let _ = cmd.run(&h.env);
    rep.evaluations += 1;
    if let Some((sig, d)) = read_oracle(&h, r).into_iter().next() {
        rep.violation(case, sig, format!("after the final prune: {d}"), json!({"config": h.cfg.desc, "history": log_desc}));
    }
    if case % 13 == 0 {
        rep.sample(json!({"config": h.cfg.desc, "history": log_desc}));
    }
}

pub fn run(ctx: &Ctx) -> (Report, Meta) {
    let n = ctx.tier.pick(80u64, 3000);
    let rep = run_cases(ctx, n, &|c, i, r, rep| {
        if let Err(p) = catch(|| history(c, i, r, rep)) {
            rep.violation(i, format!("panic:{}", panic_sig(&p)), format!("panic in history: {p}"), json!({}));
        }
    });
    let meta = Meta {
        level: "exploration",
        rule: "case = history of 4-12 steps over {edit+backup, forget a random subset, change of compression level and pack sizes (v2), prune with generated options (limits, keep-pack, keep-delete 0/1h, instant-delete, fast-repack, repack-all, repack-uncompressed, no-resize, repack-cacheable-only), plant an anomaly through the raw index writer (duplicated index file, pack in two index files, pack both used and marked, unreferenced packs of an interrupted backup, marked packs aged to either side of keep-delete, duplicate blobs across packs, tree/data blob id collision), backup through a handle with a stale index}. After EVERY step: every snapshot reads back equal to the model it was taken from and every reachable blob is present per an independent raw parse; after every prune: check(read_data) clean and, from the storage event log, no pack removed unless it was marked in the index the prune read and its keep-delete time had passed (or instant-delete was requested). distinct_nontrivial = distinct (prune mode, option flags, effect: repacked/deleted/marked)".to_string(),
        exhaustive: false,
        assumptions: vec![
            "keep-delete is exercised with 0 h (delete at the next prune) and 1 h (never within a history) plus time-travelled marks 2 min before / 10 min after the 1 h boundary; prune time is bracketed by the harness clock (+2 s slack)".to_string(),
            "percent limits stay below 100 here (>= 100 is covered by C18)".to_string(),
        ],
    };
    (rep, meta)
}
