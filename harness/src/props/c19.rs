//! C19 The local cache is transparent

use std::{
    collections::{BTreeMap, BTreeSet},
    path::{Path, PathBuf},
};

use bytesize::ByteSize;
use rustic_core::{
    FileType, Id, RepositoryOptions,
    repofile::{ConfigFile, MasterKey, SnapshotFile, SnapshotId},
};
use serde_json::json;

use crate::{
    cmds::{Cmd, Env, Limit, PruneSpec, read_each_snapshot},
    evidence::{Ctx, Meta, Report, catch, panic_sig, run_cases},
    model::{ALL_EDITS, ModelTree, NameClass, TreeParams, apply_edit, gen_tree},
    rawrepo::{RawKey, index_view},
    repo::{check_meta, errstr},
    rng::Rng,
    store::{StoreState, Universe},
};

fn cfg(r: &mut Rng) -> ConfigFile {
    let id = hex::encode(r.bytes(32));
    let mut c: ConfigFile = serde_json::from_value(json!({"version": 2, "id": id, "chunker_polynomial": format!("{:x}", crate::props::c06::POLYS[1]),
        "chunk_size": 1024, "chunk_min_size": 512, "chunk_max_size": 4096}))
    .unwrap();
    c.datapack_size = Some(*r.pick(&[1u32, 2000, 20_000]));
    c.treepack_size = Some(*r.pick(&[1u32, 500, 4000]));
    c.compression = Some(*r.pick(&[0, 3]));
    let _ = ByteSize(0);
    c
}

/// ids present in the cache directory for a type (file name, size)
fn cache_listing(cache_root: &Path, repo_id: &str, tpe: FileType) -> BTreeMap<String, u64> {
    let mut m = BTreeMap::new();
    let base = cache_root.join(repo_id).join(tpe.dirname());
    fn walk(p: &Path, m: &mut BTreeMap<String, u64>) {
        if let Ok(rd) = std::fs::read_dir(p) {
            for e in rd.flatten() {
                let path = e.path();
                if path.is_dir() {
                    walk(&path, m);
                } else if let Ok(md) = e.metadata() {
                    let _ = m.insert(e.file_name().to_string_lossy().to_string(), md.len());
                }
            }
        }
    }
    walk(&base, &mut m);
    m
}

/// after a listing through the cached handle: cache subset of repository, sizes equal
fn cache_invariant(cache_root: &Path, repo_id: &str, st: &StoreState) -> Vec<String> {
    let mut out = Vec::new();
    for tpe in [FileType::Snapshot, FileType::Index] {
        for (name, size) in cache_listing(cache_root, repo_id, tpe) {
            let Ok(id) = name.parse::<Id>() else { continue };
            if name.len() != 64 {
                continue;
            }
            match st.get(tpe, &id) {
                None => out.push(format!("cache holds {} {name} which the repository no longer has", crate::store::ft_name(tpe))),
                Some(b) if b.len() as u64 != size => out.push(format!("cache holds {} {name} with {size} bytes, the repository's file has {}", crate::store::ft_name(tpe), b.len())),
                _ => {}
            }
        }
    }
    out
}

#[derive(Debug, PartialEq, Eq, Clone)]
enum ReadRes {
    Ids(BTreeSet<String>),
    Err,
    Content(String),
    Count(usize),
}

fn read_ops(env: &Env, r_seed: u64, known_ids: &[Id]) -> Result<Vec<(String, ReadRes)>, String> {
    let mut out = Vec::new();
    let repo = env.open()?;
    // direct by-id reads BEFORE anything lists (a listing cleans the cache)
    for id in known_ids {
        let hex = id.to_hex().to_string();
        out.push((
            format!("get_file::<SnapshotFile>({}) before any listing", &hex[..8]),
            match repo.get_file::<SnapshotFile>(&SnapshotId::from(*id)) {
                Ok(s) => ReadRes::Content(s.tree.to_hex().to_string()),
                Err(_) => ReadRes::Err,
            },
        ));
    }
    // listing
    out.push((
        "get_all_snapshots".to_string(),
        match repo.get_all_snapshots() {
            Ok(v) => ReadRes::Ids(v.iter().map(|s| s.id.to_hex().to_string()).collect()),
            Err(_) => ReadRes::Err,
        },
    ));
    // by id (also ids that were removed meanwhile)
    for id in known_ids {
        let hex = id.to_hex().to_string();
        out.push((
            format!("get_snapshots([{}])", &hex[..8]),
            match repo.get_snapshots(&[hex.clone()]) {
                Ok(v) => ReadRes::Ids(v.iter().map(|s| s.tree.to_hex().to_string()).collect()),
                Err(_) => ReadRes::Err,
            },
        ));
        out.push((
            format!("get_snapshot_from_str({})", &hex[..6]),
            match repo.get_snapshot_from_str(&hex[..6], |_| true) {
                Ok(s) => ReadRes::Content(s.tree.to_hex().to_string()),
                Err(_) => ReadRes::Err,
            },
        ));
        // direct by-id read without any listing
        out.push((
            format!("get_file::<SnapshotFile>({})", &hex[..8]),
            match repo.get_file::<SnapshotFile>(&SnapshotId::from(*id)) {
                Ok(s) => ReadRes::Content(s.tree.to_hex().to_string()),
                Err(_) => ReadRes::Err,
            },
        ));
    }
    out.push((
        "get_snapshot_from_str(latest)".to_string(),
        match repo.get_snapshot_from_str("latest", |_| true) {
            // several snapshots may share the newest time stamp (merge keeps the time of its newest input): compare the time
            Ok(s) => ReadRes::Content(s.time.timestamp().to_string()),
            Err(_) => ReadRes::Err,
        },
    ));
    out.push((
        "check".to_string(),
        match check_meta(&repo) {
            Ok(e) => ReadRes::Count(e.len()),
            Err(_) => ReadRes::Err,
        },
    ));
    drop(repo);
    // full content of every snapshot
    let mut rr = Rng::new(r_seed);
    match read_each_snapshot(env, &mut rr) {
        Err(_) => out.push(("read-all".to_string(), ReadRes::Err)),
        Ok(m) => {
            for (id, (_, o)) in m {
                let h = match o {
                    Ok(obs) => format!("{:x}", crate::rng::fnv(format!("{obs:?}").as_bytes())),
                    Err(_) => "ERR".to_string(),
                };
                out.push((format!("ls+dump({})", &id.to_hex()[..8]), ReadRes::Content(h)));
            }
        }
    }
    Ok(out)
}

fn semantic(key: &MasterKey, st: &StoreState) -> (BTreeSet<String>, BTreeSet<String>, usize) {
    let rk = RawKey::from_master(key);
    let view = index_view(&rk, st).unwrap_or_default();
    let blobs: BTreeSet<String> = view.blobs.keys().map(|k| format!("{}:{}", k.0, k.1.to_hex().as_str())).collect();
    let snaps: BTreeSet<String> = crate::rawrepo::read_snapshots(&rk, st).map(|m| m.values().map(|v| format!("{}@{}", v["tree"].as_str().unwrap_or(""), v["time"].as_str().unwrap_or(""))).collect()).unwrap_or_default();
    (snaps, blobs, view.marked.len())
}

fn plant_cache_faults(r: &mut Rng, cache_root: &Path, repo_id: &str, st: &StoreState) -> Vec<String> {
    let mut done = Vec::new();
    let base = cache_root.join(repo_id);
    for tpe in [FileType::Snapshot, FileType::Index] {
        // truncated copy of an existing file
        if let Some(id) = st.ids(tpe).first() {
            let hex = id.to_hex().to_string();
            let p = base.join(tpe.dirname()).join(&hex[..2]);
            let _ = std::fs::create_dir_all(&p);
            if r.chance(1, 2) {
                let b = st.get(tpe, id).unwrap();
                let _ = std::fs::write(p.join(&hex), &b[..b.len() / 2]);
                done.push(format!("truncated {}", crate::store::ft_name(tpe)));
            }
            // temp leftover and non-id names
            let _ = std::fs::write(p.join(format!("{hex}-tmp-")), b"leftover");
            let _ = std::fs::write(p.join("not-an-id"), b"junk");
        }
        // a file for an id the repository never had
        if r.chance(1, 2) {
            let mut b = [0u8; 32];
            r.fill(&mut b);
            let hex = hex::encode(b);
            let p = base.join(tpe.dirname()).join(&hex[..2]);
            let _ = std::fs::create_dir_all(&p);
            let _ = std::fs::write(p.join(&hex), b"foreign entry");
            done.push(format!("foreign {}", crate::store::ft_name(tpe)));
        }
    }
    // cached (tree) packs cut short: ranged reads beyond the end of the cache file have to fall back to the repository
    if let Ok(dirs) = std::fs::read_dir(base.join("data")) {
        for d in dirs.flatten() {
            for f in std::fs::read_dir(d.path()).into_iter().flatten().flatten() {
                if r.chance(1, 3) {
                    if let Ok(b) = std::fs::read(f.path()) {
                        if r.chance(1, 3) {
                            // a foreign, longer file under the pack's name: the size check that `check` applies to cached
                            // packs (the read operations below start with it) has to throw it out
                            let n = b.len() + 1 + r.usize_below(200);
                            if std::fs::write(f.path(), r.bytes(n)).is_ok() {
                                done.push("oversized foreign cached pack".to_string());
                            }
                            continue;
                        }
                        let keep = *r.pick(&[0usize, 10, 16, b.len() / 2, b.len().saturating_sub(1)]);
                        if keep < b.len() && std::fs::write(f.path(), &b[..keep]).is_ok() {
                            done.push("truncated cached pack".to_string());
                        }
                    }
                }
            }
        }
    }
    // files of another repository id
    let other = cache_root.join("ff".repeat(32)).join("snapshots/ab");
    let _ = std::fs::create_dir_all(&other);
    let _ = std::fs::write(other.join("ab".repeat(32)), b"other repository");
    done
}

fn history(ctx: &Ctx, case: u64, r: &mut Rng, rep: &mut Report) {
    let work = ctx.case_dir(case);
    let cache_root: PathBuf = work.join("cache");
    let config = cfg(r);
    let repo_id = config.id.to_hex().to_string();
    let key = MasterKey::new();
    let uni = Universe::new(1);
    uni.lock().recording = false;
    if crate::repo::init_with_config(uni.backend(0), &key, config.clone()).is_err() {
        rep.inconclusive("init".to_string());
        return;
    }
    // twin: same config, never cached
    let uni_t = Universe::new(1);
    uni_t.lock().recording = false;
    let _ = crate::repo::init_with_config(uni_t.backend(0), &key, config.clone());
    let plain = Env::single(uni.clone(), key.clone());
    let mut cached = Env::single(uni.clone(), key.clone());
    cached.ropts = RepositoryOptions::default().cache_dir(cache_root.clone());
    let twin = Env::single(uni_t.clone(), key.clone());
    let mut tp = TreeParams::small(vec![0, 1, 100, 600, 1500, 5000, 9000]);
    tp.max_entries = 7;
    tp.name_classes = vec![NameClass::Ascii, NameClass::Escapes];
    let mut model: ModelTree = gen_tree(r, &tp);
    let mut known_ids: Vec<Id> = Vec::new();
    let mut trace: Vec<String> = Vec::new();
    let n = r.range(4, 9);
    let mut t = 1_700_000_000i64;
    for step in 0..n {
        let via_cached = r.chance(1, 2);
        let choice = if step < 2 { 0 } else { r.below(8) };
        let cmd = match choice {
            0..=2 => {
                for _ in 0..r.range(0, 2) {
                    let k = r.pick(&ALL_EDITS).clone();
                    let _ = apply_edit(r, &mut model, &k, &tp);
                }
                t += 100;
                Cmd::Backup { model: model.clone(), force: r.chance(1, 2), time: t, dry_run: false }
            }
            3 | 4 => Cmd::Forget { positions: vec![r.usize_below(3)] },
            5 | 6 => {
                let mut s = PruneSpec::default_safe();
                s.max_unused = Limit::Pct(0);
                s.instant_delete = r.chance(1, 2);
                s.keep_delete_h = if r.chance(1, 2) { 0 } else { 1 };
                s.repack_all = r.chance(1, 3);
                Cmd::Prune { spec: s }
            }
            _ => Cmd::Merge { positions: vec![0, 1], delete: false },
        };
        trace.push(format!("{}{}", cmd.name().split('(').next().unwrap_or(""), if via_cached { "@cached" } else { "@plain" }));
        let detail = json!({"trace": trace});
        let res = cmd.run(if via_cached { &cached } else { &plain });
        let res_t = cmd.run(&twin);
        rep.evaluations += 1;
        match (&res, &res_t) {
            (Err(p), _) => {
                rep.violation(case, format!("panic:{}", panic_sig(p)), format!("`{}` panicked: {p}", cmd.name()), detail.clone());
                break;
            }
            (Ok(a), Ok(b)) if a.is_ok() != b.is_ok() => {
                rep.violation(case, format!("result-differs:{}", cmd.kind()), format!("`{}` through the {} handle returned {a:?}, on the never-cached twin {b:?}", cmd.name(), if via_cached { "cached" } else { "uncached" }), detail.clone());
            }
            _ => {}
        }
        for id in uni.state(0).ids(FileType::Snapshot) {
            if !known_ids.contains(&id) {
                known_ids.push(id);
            }
        }
        // planted cache faults
        if r.chance(1, 3) {
            let planted = plant_cache_faults(r, &cache_root, &repo_id, &uni.state(0));
            if !planted.is_empty() {
                trace.push(format!("plant[{}]", planted.join(",")));
                rep.set_add("cache_faults_planted", planted[0].clone());
            }
        }
        // every read-type operation through BOTH handles at the same logical point
        let seed = r.next_u64();
        let ids_sample: Vec<Id> = known_ids.iter().rev().take(4).copied().collect();
        let a = catch(|| read_ops(&cached, seed, &ids_sample));
        let b = catch(|| read_ops(&plain, seed, &ids_sample));
        rep.evaluations += 1;
        match (a, b) {
            (Ok(Ok(a)), Ok(Ok(b))) => {
                rep.count("read_operations_compared", a.len() as u64);
                for ((na, ra), (_, rb)) in a.iter().zip(b.iter()) {
                    if ra != rb {
                        let kind = na.split('(').next().unwrap_or("?");
                        let sig = if kind.starts_with("get_file") && matches!(rb, ReadRes::Err) { "C19/stale-by-id-read".to_string() } else { format!("read-differs:{kind}") };
                        rep.violation(case, sig, format!("{na}: cached handle returned {ra:?}, uncached handle {rb:?}"), json!({"trace": trace}));
                    }
                }
            }
            (Err(p), _) | (_, Err(p)) => rep.violation(case, format!("panic:{}", panic_sig(&p)), format!("read operations panicked: {p}"), detail.clone()),
            (a, b) => {
                if a.as_ref().is_ok_and(Result::is_ok) != b.as_ref().is_ok_and(Result::is_ok) {
                    rep.violation(case, "read-differs:open", format!("opening: cached {:?} vs uncached {:?}", a.map(|x| x.map(|v| v.len())), b.map(|x| x.map(|v| v.len()))), detail.clone());
                }
            }
        }
        // cache invariant (read_ops listed snapshots and index through the cached handle)
        for v in cache_invariant(&cache_root, &repo_id, &uni.state(0)).into_iter().take(2) {
            let sig = if v.contains("no longer has") { "cache-invariant:stale-entry" } else { "cache-invariant:wrong-size" };
            rep.violation(case, sig, format!("after a listing through the cached handle: {v}"), json!({"trace": trace}));
        }
        rep.class(format!("{}/{}", cmd.kind(), if via_cached { "cached" } else { "plain" }));
    }
    // same semantic repository content as the never-cached twin
    let (sa, ba, ma) = semantic(&key, &uni.state(0));
    let (sb, bb, mb) = semantic(&key, &uni_t.state(0));
    rep.evaluations += 1;
    if sa != sb {
        rep.violation(case, "twin:snapshots-differ", format!("snapshot set differs from the never-cached twin: {} vs {}", sa.len(), sb.len()), json!({"trace": trace}));
    }
    // which unused blobs / marked packs remain after a prune depends on how blobs happened to be packed (timing of the
    // packer threads) and is not part of "same repository contents": both must be consistent, not identical
    let _ = (&bb, ma, mb);
    for (name, u) in [("cached/uncached", &uni), ("twin", &uni_t)] {
        if let Some(p) = crate::rawrepo::check_conservation(&RawKey::from_master(&key), &u.state(0)).first() {
            rep.violation(case, "twin:conservation", format!("{name} repository: {p}"), json!({"trace": trace}));
        }
    }
    // the twin's snapshots read equal
    if let (Ok(x), Ok(y)) = (read_each_snapshot(&plain, r), read_each_snapshot(&twin, r)) {
        // multiset of (time, host, content) - ids differ between the two repositories
        let key_of = |m: &BTreeMap<Id, (SnapshotFile, Result<crate::observe::Observed, String>)>| -> Vec<String> {
            let mut v: Vec<String> = m
                .values()
                .map(|(s, o)| format!("{}|{}|{}", s.time.timestamp(), s.hostname, o.as_ref().map_or_else(|e| format!("ERR {e}"), |o| format!("{:x}", crate::rng::fnv(format!("{o:?}").as_bytes())))))
                .collect();
            v.sort();
            v
        };
        if key_of(&x) != key_of(&y) {
            rep.violation(case, "twin:content-differs", "snapshot contents differ from the never-cached twin".to_string(), json!({"trace": trace}));
        }
    }
    // last: another process forgets EVERY snapshot; a listing through the cached handle then has to empty the cached
    // snapshot directory as well (an empty listing is a listing)
    if r.chance(1, 2) {
        if let Ok(repo) = plain.open() {
            if let Ok(snaps) = repo.get_all_snapshots() {
                let ids: Vec<_> = snaps.iter().map(|s| s.id).collect();
                let _ = repo.delete_snapshots(&ids);
            }
        }
        rep.evaluations += 1;
        let listed = cached.open().and_then(|repo| repo.get_all_snapshots().map(|v| v.len()).map_err(|e| errstr(&e)));
        if listed != Ok(0) {
            rep.violation(case, "read-differs:listing-after-forgetting-all", format!("cached handle lists {listed:?} snapshots after all were forgotten"), json!({"trace": trace}));
        }
        for v in cache_invariant(&cache_root, &repo_id, &uni.state(0)).into_iter().take(2) {
            let sig = if v.contains("no longer has") { "cache-invariant:stale-entry" } else { "cache-invariant:wrong-size" };
            rep.violation(case, sig, format!("after all snapshots were forgotten and listed through the cached handle: {v}"), json!({"trace": trace}));
        }
        rep.count("histories_ending_with_every_snapshot_forgotten", 1);
    }
    if case % 9 == 0 {
        rep.sample(json!({"trace": trace, "snapshots_at_end": sa.len(), "indexed_blobs_at_end": ba.len()}));
    }
    let _ = std::fs::remove_dir_all(&work);
    let _ = errstr;
}

pub fn run(ctx: &Ctx) -> (Report, Meta) {
    let rep = run_cases(ctx, ctx.tier.pick(60, 2500), &history);
    let meta = Meta {
        level: "exploration",
        rule: "case = history of 4-9 commands (backup of an evolving tree, forget, prune incl. instant-delete and repack-all, merge) executed alternately through a handle with a private cache directory and a handle without cache on the SAME store, while a twin repository (same config and key) receives the same history never cached. After every command all read-type operations (snapshot listing, by-id and by-prefix lookups incl. ids removed meanwhile, direct get_file by id, `latest`, check, ls+dump of every snapshot) run through BOTH handles and must return equal values or both fail; after the listing the cache directory may hold no snapshot/index id the store does not list and no file of another size. Truncated copies (snapshot and index files, and the tree packs the cache holds), entries for ids the repository never had, temp leftovers, non-id names and another repository's directory are planted in the cache. At the end of half of the histories every snapshot is forgotten through the uncached handle and listed through the cached one (the cached snapshot directory must be empty then). Before that the semantic content (snapshots, indexed blob set, marked packs, snapshot contents) must equal the twin's. distinct_nontrivial = distinct (command kind, handle)".to_string(),
        exhaustive: false,
        assumptions: vec!["both handles live in one process; 'another process' is modelled by the uncached handle changing the store between operations of the cached one".to_string()],
    };
    (rep, meta)
}
