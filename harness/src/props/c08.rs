//! C08 Pack files, their headers and the index always agree; index is rebuildable

use std::collections::BTreeMap;

use bytesize::ByteSize;
use rustic_core::{ConfigOptions, FileType, Id};
use serde_json::json;

use crate::{
    cmds::{Cmd, Env, Limit, PruneSpec, read_each_snapshot},
    evidence::{Ctx, Meta, Report, catch, panic_sig, run_cases},
    model::{ALL_EDITS, apply_edit},
    observe::{CmpOpts, Observed, diff_obs},
    props::c02::{H, setup},
    rawrepo::{index_view, verify_pack},
    repo::{check_full, errstr},
    rng::Rng,
    store::{StoreState, Universe},
};

/// verify every pack of `st` against the raw index; returns (packs verified, problems)
pub fn verify_all_packs(h_key: &crate::rawrepo::RawKey, st: &StoreState) -> (usize, Vec<String>) {
    let view = match index_view(h_key, st) {
        Ok(v) => v,
        Err(e) => return (0, vec![format!("index unreadable: {e}")]),
    };
    let mut problems = Vec::new();
    let mut n = 0;
    for id in st.ids(FileType::Pack) {
        let bytes = st.get(FileType::Pack, &id).unwrap();
        let idx = view.packs.get(&id).or_else(|| view.marked.get(&id));
        // packs listed without blobs (unindexed packs marked by prune) carry only a size
        let idx = idx.filter(|p| !p.blobs.is_empty());
        problems.extend(verify_pack(h_key, &id, bytes, idx));
        if let Some(p) = view.packs.get(&id).or_else(|| view.marked.get(&id)) {
            if let Some(sz) = p.size {
                if sz as usize != bytes.len() {
                    problems.push(format!("pack {id}: index records size {sz}, file has {}", bytes.len()));
                }
            }
        }
        n += 1;
    }
    // every pack the index lists as unmarked must exist
    for id in view.packs.keys() {
        if !st.has(FileType::Pack, id) {
            problems.push(format!("index lists pack {id} which does not exist"));
        }
    }
    (n, problems)
}

fn producers(r: &mut Rng, h: &mut H, other: &Option<Env>) -> Cmd {
    match r.below(12) {
        0..=3 => {
            for _ in 0..r.range(0, 3) {
                let k = r.pick(&ALL_EDITS).clone();
                let _ = apply_edit(r, &mut h.model, &k, &h.tp);
            }
            h.time += 100;
            Cmd::Backup { model: h.model.clone(), force: r.chance(1, 2), time: h.time, dry_run: false }
        }
        4 => Cmd::Forget { positions: vec![r.usize_below(3)] },
        5..=7 => {
            let mut s = PruneSpec::generate(r, h.cfg.version == 2);
            s.max_unused = Limit::Pct(0);
            s.max_repack = Limit::Unlimited;
            if r.chance(1, 2) {
                s.repack_all = true;
            }
            Cmd::Prune { spec: s }
        }
        8 => match other {
            Some(o) => Cmd::CopyFrom { src: o.clone() },
            None => Cmd::Merge { positions: vec![0, 1], delete: false },
        },
        9 => Cmd::Merge { positions: vec![0, 1], delete: false },
        10 => Cmd::Rewrite { exclude: vec!["!big*".to_string(), "!*a*".to_string()], forget: r.chance(1, 2), dry_run: false },
        _ => Cmd::ApplyConfig { opts: ConfigOptions::default().set_datapack_size(ByteSize(r.range(1, 9000))).set_compression(if h.cfg.version == 2 { *r.pick(&[0, 1, 5, -3]) } else { 0 }) },
    }
}

fn one_case(_ctx: &Ctx, case: u64, r: &mut Rng, rep: &mut Report) {
    let mut h = match setup(r) {
        Ok(h) => h,
        Err(e) => {
            rep.inconclusive(format!("setup: {e}"));
            return;
        }
    };
    let rk = h.rk();
    // a second repository (other key, other config) as copy source
    let other = {
        let mut r2 = r.fork(3);
        setup(&mut r2).ok().filter(|o| o.cfg.rabin == h.cfg.rabin).and_then(|mut o| {
            o.backup(true).ok()?;
            o.uni.lock().recording = false;
            Some(o.env.clone())
        })
    };
    // 1 case in 3 (v2) starts with a prelude that leaves packs mixing uncompressed (37-byte) and compressed
    // (41-byte) header records: content stored without compression, compression switched on, more content, then a
    // fast repack of everything into larger packs
    let mut queue: std::collections::VecDeque<Cmd> = std::collections::VecDeque::new();
    if h.cfg.version == 2 && r.chance(1, 3) {
        let big = ByteSize(r.range(3000, 60_000));
        queue.push_back(Cmd::ApplyConfig { opts: ConfigOptions::default().set_compression(0).set_datapack_size(big).set_treepack_size(big) });
        h.time += 100;
        queue.push_back(Cmd::Backup { model: h.model.clone(), force: true, time: h.time, dry_run: false });
        queue.push_back(Cmd::ApplyConfig { opts: ConfigOptions::default().set_compression(*r.pick(&[1, 3, -3])) });
        for _ in 0..r.range(1, 3) {
            let k = r.pick(&ALL_EDITS).clone();
            let _ = apply_edit(r, &mut h.model, &k, &h.tp);
        }
        h.time += 100;
        queue.push_back(Cmd::Backup { model: h.model.clone(), force: true, time: h.time, dry_run: false });
        let mut s = PruneSpec::default_safe();
        s.max_unused = Limit::Pct(0);
        s.max_repack = Limit::Unlimited;
        s.repack_all = true;
        s.fast_repack = true;
        s.instant_delete = r.chance(1, 2);
        queue.push_back(Cmd::Prune { spec: s });
    }
    let n = r.range(3, 8) + queue.len() as u64;
    let mut hist = Vec::new();
    for _ in 0..n {
        let cmd = match queue.pop_front() {
            Some(c) => c,
            None => producers(r, &mut h, &other),
        };
        hist.push(cmd.name());
        h.uni.clear_log();
        let res = cmd.run(&h.env);
        let log = h.uni.take_log();
        let new_packs = log.iter().filter(|e| e.op == crate::store::Op::Write && e.tpe == FileType::Pack).count();
        rep.count("packs_written", new_packs as u64);
        let detail = json!({"config": h.cfg.desc, "history": hist});
        if let Err(p) = &res {
            rep.violation(case, format!("panic:{}", panic_sig(p)), format!("`{}` panicked: {p}", cmd.name()), detail.clone());
            return;
        }
        rep.evaluations += 1;
        let st = h.uni.state(0);
        let (nv, probs) = verify_all_packs(&rk, &st);
        rep.count("packs_verified_by_independent_parser", nv as u64);
        if let Some(p) = probs.first() {
            let sig = if p.contains("name is not") { "pack:name-not-hash" } else if p.contains("trailer") || p.contains("header") { "pack:header" } else if p.contains("index entry") || p.contains("index lists") || p.contains("index size") || p.contains("index records") { "pack:index-disagrees" } else if p.contains("blob") { "pack:blob" } else { "pack:other" };
            rep.violation(case, format!("{sig}:{}", cmd.kind()), format!("after `{}`: {p}", cmd.name()), detail.clone());
            return;
        }
        if new_packs > 0 {
            rep.class(format!("{}/{}", cmd.kind(), if h.cfg.version == 2 { "v2" } else { "v1" }));
            if let Ok(v) = index_view(&rk, &st) {
                let mixed = v.packs.values().filter(|p| p.blobs.iter().any(|b| b.uncompressed_length.is_some()) && p.blobs.iter().any(|b| b.uncompressed_length.is_none())).count();
                rep.max("max_packs_mixing_compressed_and_uncompressed_blobs", mixed as u64);
                if mixed > 0 {
                    rep.class(format!("{}/mixed-header-records", cmd.kind()));
                }
            }
        }
    }
    // index rebuild: remove subsets of index files, repair, compare
    let base = h.uni.snapshot();
    let before: BTreeMap<Id, Observed> = match read_each_snapshot(&h.env, r) {
        Ok(m) => m.into_iter().filter_map(|(id, (_, o))| o.ok().map(|o| (id, o))).collect(),
        Err(e) => {
            rep.violation(case, "unreadable-before-rebuild", e, json!({"history": hist}));
            return;
        }
    };
    let idx_files = base[0].ids(FileType::Index);
    let k = idx_files.len();
    // subsets as membership vectors (with hook H6 a repository can hold far more than 32 index files)
    let subsets: Vec<Vec<bool>> = if k == 0 {
        vec![]
    } else if k <= 4 {
        (1u32..(1 << k)).map(|m| (0..k).map(|i| m & (1 << i) != 0).collect()).collect()
    } else {
        let mut v = vec![vec![true; k]];
        for _ in 0..6 {
            let mut s: Vec<bool> = (0..k).map(|_| r.chance(1, 2)).collect();
            if !s.iter().any(|b| *b) {
                s[r.usize_below(k)] = true;
            }
            v.push(s);
        }
        v
    };
    for mask in subsets {
        let mut st = base.clone();
        let mut removed = 0;
        for (i, id) in idx_files.iter().enumerate() {
            if mask[i] {
                let _ = st[0].del(FileType::Index, id);
                removed += 1;
            }
        }
        let uni = Universe::from_states(st);
        uni.lock().recording = false;
        let env = Env::single(uni.clone(), h.key.clone());
        rep.evaluations += 1;
        rep.count("index_subsets_rebuilt", 1);
        let detail = json!({"config": h.cfg.desc, "history": hist, "index_files": k, "removed": removed});
        match (Cmd::RepairIndex { read_all: r.chance(1, 4), dry_run: false }).run(&env) {
            Err(p) => {
                rep.violation(case, format!("panic:{}", panic_sig(&p)), format!("repair_index panicked: {p}"), detail);
                continue;
            }
            Ok(Err(e)) => {
                rep.violation(case, "rebuild:repair-index-failed", e, detail);
                continue;
            }
            Ok(Ok(())) => {}
        }
        match catch(|| env.open().and_then(|repo| check_full(&repo).map_err(|e| errstr(&e)))) {
            Ok(Ok(errs)) => {
                if let Some(e) = errs.first() {
                    rep.violation(case, "rebuild:check-reports", format!("after removing {removed} of {k} index files and repairing: {e}"), detail.clone());
                }
            }
            other => rep.violation(case, "rebuild:check-failed", format!("{other:?}"), detail.clone()),
        }
        match read_each_snapshot(&env, r) {
            Err(e) => rep.violation(case, "rebuild:unreadable", e, detail.clone()),
            Ok(m) => {
                for (id, b) in &before {
                    match m.get(id).map(|x| &x.1) {
                        Some(Ok(o)) => {
                            if let Some(d) = diff_obs(b, o, CmpOpts::ALL).first() {
                                rep.violation(case, "rebuild:content-differs", format!("snapshot {id} after index rebuild: {d}"), detail.clone());
                            }
                        }
                        other => rep.violation(case, "rebuild:snapshot-unreadable", format!("snapshot {id} after index rebuild: {:?}", other.map(|x| x.as_ref().err())), detail.clone()),
                    }
                }
            }
        }
        let (_, probs) = verify_all_packs(&rk, &uni.state(0));
        if let Some(p) = probs.first() {
            rep.violation(case, "rebuild:index-disagrees-with-packs", format!("rebuilt index vs packs: {p}"), detail);
        }
        rep.class(format!("rebuild/{}of{}", if removed == k { "all".to_string() } else { "some".to_string() }, k.min(5)));
    }
    if case % 13 == 0 {
        rep.sample(json!({"config": h.cfg.desc, "history": hist, "index_files": k, "packs": base[0].count(FileType::Pack)}));
    }
}

pub fn run(ctx: &Ctx) -> (Report, Meta) {
    let n = ctx.tier.pick(60u64, 2500);
    let rep = run_cases(ctx, n, &one_case);
    let meta = Meta {
        level: "exploration",
        rule: "case = history of 3-8 pack-producing commands (backup, prune with repack / repack-all / fast / repack-uncompressed, copy from a repository with another key and config, merge, rewrite, config changes of pack size and compression; one v2 case in three starts with a prelude that ends in packs mixing compressed and uncompressed blobs) on a generated configuration; after EVERY command every pack file in storage is parsed by the harness's independent decoder: name = SHA-256, trailer length field, 37/41-byte records, blob order/offsets/lengths/types == index entries, every blob decrypts, decompresses to the recorded length and hashes to its id, file size == sum == index size. Then all subsets (<= 4 index files, sampled above) of index files are removed, repair_index runs, and check(read_data) must be clean, every snapshot must read back identically and the rebuilt index must agree with the packs. distinct_nontrivial = distinct (producer kind, repo version) that wrote packs / rebuild classes".to_string(),
        exhaustive: false,
        assumptions: vec!["subset enumeration is complete only up to 4 index files per repository".to_string()],
    };
    (rep, meta)
}
