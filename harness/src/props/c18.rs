//! C18 Accepted configurations work; refused or unnamed settings change nothing

use std::{collections::BTreeSet, sync::Arc};

use bytesize::ByteSize;
use rustic_core::{
    ConfigOptions, FileType, LimitOption, PruneOptions,
    jiff::Span,
    repofile::{Chunker, MasterKey},
};
use serde_json::{Value, json};

use crate::{
    cmds::{Cmd, Env, read_each_snapshot},
    evidence::{Ctx, Meta, Report, catch, panic_sig, run_cases},
    model::{Entry, Frag, Kind, ModelTree, pk},
    observe::{CmpOpts, diff_model},
    rawrepo::{RawKey, decode_file},
    repo::{backup_model, check_full, creds, errstr, new_repo, snap_at},
    rng::Rng,
    store::Universe,
};

#[derive(Clone, Debug, Default)]
struct Opt {
    version: Option<u32>,
    chunker: Option<u8>,
    chunk_size: Option<u64>,
    chunk_min: Option<u64>,
    chunk_max: Option<u64>,
    compression: Option<i32>,
    append_only: Option<bool>,
    treepack: Option<u64>,
    treepack_limit: Option<u64>,
    treepack_grow: Option<u32>,
    datapack: Option<u64>,
    datapack_grow: Option<u32>,
    datapack_limit: Option<u64>,
    min_pct: Option<u32>,
    max_pct: Option<u32>,
    extra_verify: Option<bool>,
}

impl Opt {
    fn to_lib(&self) -> ConfigOptions {
        let mut o = ConfigOptions::default();
        if let Some(v) = self.version {
            o = o.set_version(v);
        }
        if let Some(c) = self.chunker {
            o = o.set_chunker(if c == 0 { Chunker::Rabin } else { Chunker::FixedSize });
        }
        if let Some(v) = self.chunk_size {
            o = o.set_chunk_size(ByteSize(v));
        }
        if let Some(v) = self.chunk_min {
            o = o.set_chunk_min_size(ByteSize(v));
        }
        if let Some(v) = self.chunk_max {
            o = o.set_chunk_max_size(ByteSize(v));
        }
        if let Some(v) = self.compression {
            o = o.set_compression(v);
        }
        if let Some(v) = self.append_only {
            o = o.set_append_only(v);
        }
        if let Some(v) = self.treepack {
            o = o.set_treepack_size(ByteSize(v));
        }
        if let Some(v) = self.treepack_limit {
            o = o.set_treepack_size_limit(ByteSize(v));
        }
        if let Some(v) = self.treepack_grow {
            o = o.set_treepack_growfactor(v);
        }
        if let Some(v) = self.datapack {
            o = o.set_datapack_size(ByteSize(v));
        }
        if let Some(v) = self.datapack_grow {
            o = o.set_datapack_growfactor(v);
        }
        if let Some(v) = self.datapack_limit {
            o = o.set_datapack_size_limit(ByteSize(v));
        }
        if let Some(v) = self.min_pct {
            o = o.set_min_packsize_tolerate_percent(v);
        }
        if let Some(v) = self.max_pct {
            o = o.set_max_packsize_tolerate_percent(v);
        }
        if let Some(v) = self.extra_verify {
            o = o.set_extra_verify(v);
        }
        o
    }
    /// config keys this change names
    fn named_keys(&self) -> BTreeSet<&'static str> {
        let mut s = BTreeSet::new();
        macro_rules! k {
            ($f:ident, $n:expr) => {
                if self.$f.is_some() {
                    let _ = s.insert($n);
                }
            };
        }
        k!(version, "version");
        k!(chunker, "chunker");
        k!(chunk_size, "chunk_size");
        k!(chunk_min, "chunk_min_size");
        k!(chunk_max, "chunk_max_size");
        k!(compression, "compression");
        k!(append_only, "append_only");
        k!(treepack, "treepack_size");
        k!(treepack_limit, "treepack_size_limit");
        k!(treepack_grow, "treepack_growfactor");
        k!(datapack, "datapack_size");
        k!(datapack_grow, "datapack_growfactor");
        k!(datapack_limit, "datapack_size_limit");
        k!(min_pct, "min_packsize_tolerate_percent");
        k!(max_pct, "max_packsize_tolerate_percent");
        k!(extra_verify, "extra_verify");
        s
    }
    fn is_heavy(&self) -> bool {
        self.compression.is_some_and(|c| c >= 15)
    }
}

const SIZES: [u64; 14] = [0, 1, 2, 3, 63, 64, 65, 4095, 4096, 4097, 1 << 20, (1 << 20) + 1, 1 << 40, u64::MAX];
const PACKS: [u64; 8] = [0, 1, 300, 4096, (u32::MAX as u64) - 1, u32::MAX as u64, (u32::MAX as u64) + 1, u64::MAX];
const U32S: [u32; 7] = [0, 1, 2, 32, 1000, u32::MAX - 1, u32::MAX];
const PCTS: [u32; 8] = [0, 1, 30, 99, 100, 101, 200, u32::MAX];
const COMPS: [i32; 12] = [i32::MIN, -131_073, -131_072, -7, -1, 0, 1, 3, 19, 22, 23, i32::MAX];

/// single-field options, exhaustively
fn single_field_space() -> Vec<Opt> {
    let mut v = Vec::new();
    for x in [0u32, 1, 2, 3, u32::MAX] {
        v.push(Opt { version: Some(x), ..Default::default() });
    }
    for x in [0u8, 1] {
        v.push(Opt { chunker: Some(x), ..Default::default() });
        for s in SIZES {
            v.push(Opt { chunker: Some(x), chunk_size: Some(s), ..Default::default() });
        }
    }
    for s in SIZES {
        v.push(Opt { chunk_size: Some(s), ..Default::default() });
        v.push(Opt { chunk_min: Some(s), ..Default::default() });
        v.push(Opt { chunk_max: Some(s), ..Default::default() });
    }
    for c in COMPS {
        v.push(Opt { compression: Some(c), ..Default::default() });
    }
    for b in [true, false] {
        v.push(Opt { append_only: Some(b), ..Default::default() });
        v.push(Opt { extra_verify: Some(b), ..Default::default() });
    }
    for s in PACKS {
        v.push(Opt { treepack: Some(s), ..Default::default() });
        v.push(Opt { treepack_limit: Some(s), ..Default::default() });
        v.push(Opt { datapack: Some(s), ..Default::default() });
        v.push(Opt { datapack_limit: Some(s), ..Default::default() });
    }
    for s in U32S {
        v.push(Opt { treepack_grow: Some(s), ..Default::default() });
        v.push(Opt { datapack_grow: Some(s), ..Default::default() });
    }
    for s in PCTS {
        v.push(Opt { min_pct: Some(s), ..Default::default() });
        v.push(Opt { max_pct: Some(s), ..Default::default() });
    }
    v
}

fn random_opt(r: &mut Rng) -> Opt {
    let mut o = Opt::default();
    let pick64 = |r: &mut Rng, a: &[u64]| -> Option<u64> { if r.chance(1, 3) { Some(*r.pick(a)) } else { None } };
    // interacting groups
    match r.below(5) {
        0 => {
            // chunker x sizes
            o.chunker = Some(r.below(2) as u8);
            let avg = *r.pick(&[1u64, 2, 16, 64, 128, 4096, 1 << 20, 3, 0]);
            o.chunk_size = Some(avg);
            o.chunk_min = *r.pick(&[None, Some(0), Some(1), Some(avg), Some(avg + 1), Some(avg / 2), Some(63), Some(64)]);
            o.chunk_max = *r.pick(&[None, Some(avg), Some(avg.saturating_sub(1)), Some(avg + 1), Some(avg.saturating_mul(4)), Some(u64::MAX)]);
        }
        1 => {
            o.version = *r.pick(&[None, Some(1), Some(2), Some(3)]);
            o.compression = Some(*r.pick(&COMPS));
        }
        2 => {
            o.datapack = pick64(r, &PACKS);
            o.datapack_grow = if r.chance(1, 2) { Some(*r.pick(&U32S)) } else { None };
            o.datapack_limit = pick64(r, &PACKS);
            o.treepack = pick64(r, &PACKS);
            o.treepack_grow = if r.chance(1, 2) { Some(*r.pick(&U32S)) } else { None };
            o.treepack_limit = pick64(r, &PACKS);
        }
        3 => {
            o.min_pct = Some(*r.pick(&PCTS));
            o.max_pct = Some(*r.pick(&PCTS));
            o.datapack = pick64(r, &PACKS);
        }
        _ => {
            o.extra_verify = *r.pick(&[None, Some(true), Some(false)]);
            o.append_only = *r.pick(&[None, None, Some(false)]);
            o.compression = *r.pick(&[None, Some(0), Some(3)]);
            o.treepack = pick64(r, &[300, 4096]);
        }
    }
    o
}

fn smoke_model(r: &mut Rng) -> ModelTree {
    let mut m = ModelTree::new();
    m.insert(pk("empty"), Entry { kind: Kind::File(Arc::new(Vec::new())), mode: 0o644, mtime: (1_650_000_000, 0), hardlink: None });
    m.insert(pk("small"), Entry { kind: Kind::File(Arc::new(r.rbytes(1, 200))), mode: 0o644, mtime: (1_650_000_001, 0), hardlink: None });
    m.insert(pk("d/multi"), Entry { kind: Kind::File(Arc::new(r.rbytes(9000, 20_000))), mode: 0o600, mtime: (1_650_000_002, 0), hardlink: None });
    m.insert(pk("d/zeros"), Entry { kind: Kind::File(Arc::new(vec![0; 5000])), mode: 0o600, mtime: (1_650_000_003, 0), hardlink: None });
    m.insert(pk("d/link"), Entry { kind: Kind::Symlink(b"multi".to_vec()), mode: 0o777, mtime: (1_650_000_004, 0), hardlink: None });
    m
}

fn stored_config(uni: &Universe, key: &MasterKey) -> Option<(Vec<u8>, Value)> {
    let st = uni.state(0);
    let raw = st.get(FileType::Config, &rustic_core::Id::default())?.to_vec();
    let json = decode_file(&RawKey::from_master(key), &raw).ok()?;
    Some((raw, serde_json::from_slice(&json).ok()?))
}

/// backup + check + read back + prune on an existing repository; returns problems
fn smoke(env: &Env, r: &mut Rng, t: i64) -> Vec<(String, String)> {
    let mut out = Vec::new();
    let m = smoke_model(r);
    let res = catch(|| -> Result<rustic_core::repofile::SnapshotFile, String> {
        let repo = env.ids()?;
        // forced: the smoke model keeps its mtimes while its content changes from call to call, which is outside
        // the premise under which a parent may be used
        backup_model(&repo, &m, Frag::Whole, &rustic_core::BackupOptions::default().parent_opts(rustic_core::ParentOptions::default().force(true)), snap_at(t, "h")).map_err(|e| errstr(&e))
    });
    let snap = match res {
        Err(p) => {
            out.push((format!("panic:{}", panic_sig(&p)), format!("backup panicked: {p}")));
            return out;
        }
        Ok(Err(e)) => {
            out.push(("accepted-config:backup-fails".to_string(), format!("backup fails on an accepted configuration: {e}")));
            return out;
        }
        Ok(Ok(s)) => s,
    };
    match catch(|| env.open().and_then(|repo| check_full(&repo).map_err(|e| errstr(&e)))) {
        Err(p) => out.push((format!("panic:{}", panic_sig(&p)), format!("check panicked: {p}"))),
        Ok(Err(e)) => out.push(("accepted-config:check-fails".to_string(), e)),
        Ok(Ok(errs)) => {
            if let Some(e) = errs.first() {
                out.push(("accepted-config:check-reports".to_string(), e.clone()));
            }
        }
    }
    match catch(|| read_each_snapshot(env, r)) {
        Err(p) => out.push((format!("panic:{}", panic_sig(&p)), format!("reading back panicked: {p}"))),
        Ok(Err(e)) => out.push(("accepted-config:unreadable".to_string(), e)),
        Ok(Ok(all)) => match all.get(&*snap.id).map(|x| &x.1) {
            Some(Ok(o)) => {
                if let Some(d) = diff_model(&m, o, CmpOpts::ALL).first() {
                    out.push(("accepted-config:silent-loss".to_string(), format!("snapshot differs from its source: {d}")));
                }
            }
            other => out.push(("accepted-config:snapshot-unreadable".to_string(), format!("{:?}", other.map(|x| x.as_ref().err())))),
        },
    }
    out
}

fn config_case(ctx: &Ctx, case: u64, r: &mut Rng, rep: &mut Report, space: &[Opt]) {
    let _ = ctx;
    let at_init = case % 2 == 0;
    let opt = if (case / 2) < space.len() as u64 { space[(case / 2) as usize].clone() } else { random_opt(r) };
    if opt.is_heavy() && case % 7 != 0 {
        // levels >= 15 cost seconds per smoke run: sample them
        rep.count("heavy_compression_cases_skipped", 1);
        return;
    }
    let lib = opt.to_lib();
    let detail = json!({"options": format!("{opt:?}"), "at": if at_init { "init" } else { "apply_config" }});
    let uni = Universe::new(1);
    let key = MasterKey::new();
    rep.evaluations += 1;
    if at_init {
        let res = catch(|| new_repo(uni.backend(0), None).and_then(|x| x.init(&creds(&key), &rustic_core::KeyOptions::default(), &lib)).map(|_| ()).map_err(|e| errstr(&e)));
        match res {
            Err(p) => rep.violation(case, format!("panic:{}", panic_sig(&p)), format!("init panicked: {p}"), detail),
            Ok(Err(_)) => {
                rep.count("refused_at_init", 1);
                if uni.state(0).has(FileType::Config, &rustic_core::Id::default()) {
                    rep.violation(case, "refused-init-wrote-config", "init refused the options but a config file was written".to_string(), detail);
                }
                rep.class(format!("init/refused/{}", opt.named_keys().into_iter().collect::<Vec<_>>().join("+")));
            }
            Ok(Ok(())) => {
                rep.count("accepted_at_init", 1);
                let env = Env::single(uni.clone(), key.clone());
                let mut seen = BTreeSet::new();
                for (sig, d) in smoke(&env, r, 1_700_000_000) {
                    if seen.insert(sig.clone()) {
                        rep.violation(case, sig, format!("options accepted at init, then: {d}"), detail.clone());
                    }
                }
                rep.class(format!("init/accepted/{}", opt.named_keys().into_iter().collect::<Vec<_>>().join("+")));
            }
        }
        return;
    }
    // change on an existing repository (with content)
    let base_opts = ConfigOptions::default().set_datapack_size(ByteSize(3000)).set_chunk_size(ByteSize(1024)).set_chunk_min_size(ByteSize(512)).set_chunk_max_size(ByteSize(4096)).set_extra_verify(r.chance(1, 2));
    if new_repo(uni.backend(0), None).and_then(|x| x.init(&creds(&key), &rustic_core::KeyOptions::default(), &base_opts)).is_err() {
        rep.inconclusive("base init failed".to_string());
        return;
    }
    let env = Env::single(uni.clone(), key.clone());
    if !smoke(&env, r, 1_699_000_000).is_empty() {
        rep.inconclusive("base smoke failed".to_string());
        return;
    }
    // sequences of up to 3 changes
    let mut n_changes = if (case / 2) < space.len() as u64 { 1 } else { r.range(1, 3) };
    let mut o = opt;
    // chained changes of one interacting group, each naming only part of it: chunk sizes that suit one chunker only,
    // then the other chunker alone (or the other way round) - the second change must be judged against what is STORED
    let chain: Option<Vec<Opt>> = if (case / 2) >= space.len() as u64 && r.chance(1, 3) {
        let size = *r.pick(&[8000u64, 3000, 777, 5, 1 << 20, 4096]);
        let mut a = Opt::default();
        a.chunker = Some(1);
        a.chunk_size = Some(size);
        let mut b = Opt::default();
        b.chunker = Some(0);
        let mut c = Opt::default();
        c.chunk_size = Some(*r.pick(&[8000u64, 12345, 4096, 1]));
        let mut d = Opt::default();
        d.chunk_min = Some(*r.pick(&[0u64, 1, 63, 5000, 1 << 30]));
        Some(match r.below(3) {
            0 => vec![a, b],
            1 => vec![a, b, c],
            _ => vec![a, d, b],
        })
    } else {
        None
    };
    if let Some(ch) = &chain {
        n_changes = ch.len() as u64;
        rep.count("chained_partial_changes", 1);
    }
    for step in 0..n_changes {
        if let Some(ch) = &chain {
            o = ch[step as usize].clone();
        } else if step > 0 {
            o = random_opt(r);
            if o.is_heavy() {
                continue;
            }
        }
        let lib = o.to_lib();
        let detail = json!({"options": format!("{o:?}"), "at": "apply_config", "step": step});
        let Some((raw_before, json_before)) = stored_config(&uni, &key) else { return };
        uni.clear_log();
        rep.evaluations += 1;
        let res = Cmd::ApplyConfig { opts: lib }.run(&env);
        let log = uni.take_log();
        let wrote = log.iter().any(|e| e.op.mutating());
        let Some((raw_after, json_after)) = stored_config(&uni, &key) else {
            rep.violation(case, "config-unreadable-after-change", "stored config cannot be decoded after the change".to_string(), detail);
            return;
        };
        match res {
            Err(p) => {
                rep.violation(case, format!("panic:{}", panic_sig(&p)), format!("apply_config panicked: {p}"), detail.clone());
                return;
            }
            Ok(Err(_)) => {
                rep.count("refused_changes", 1);
                if raw_after != raw_before || wrote {
                    rep.violation(case, "refused-change-touched-config", "apply_config returned an error but the stored configuration changed / storage was written".to_string(), detail.clone());
                }
                rep.class(format!("change/refused/{}", o.named_keys().into_iter().collect::<Vec<_>>().join("+")));
            }
            Ok(Ok(())) => {
                rep.count("accepted_changes", 1);
                // field-wise diff
                let named = o.named_keys();
                let (a, b) = (json_before.as_object().cloned().unwrap_or_default(), json_after.as_object().cloned().unwrap_or_default());
                let keys: BTreeSet<&String> = a.keys().chain(b.keys()).collect();
                for k in keys {
                    if a.get(k) != b.get(k) && !named.contains(k.as_str()) {
                        rep.violation(
                            case,
                            format!("unnamed-setting-changed:{k}"),
                            format!("the change names {named:?} but `{k}` went from {:?} to {:?}", a.get(k), b.get(k)),
                            detail.clone(),
                        );
                    }
                }
                if o.version.is_some_and(|v| json_before["version"].as_u64().is_some_and(|old| u64::from(v) < old)) {
                    rep.violation(case, "version-downgrade-accepted", "a version downgrade was accepted".to_string(), detail.clone());
                }
                let mut seen = BTreeSet::new();
                for (sig, d) in smoke(&env, r, 1_700_000_000 + step as i64 * 100) {
                    if seen.insert(sig.clone()) {
                        rep.violation(case, sig, format!("change accepted, then: {d}"), detail.clone());
                    }
                }
                rep.class(format!("change/accepted/{}", o.named_keys().into_iter().collect::<Vec<_>>().join("+")));
                if o.append_only == Some(true) {
                    return; // further changes are refused by design
                }
            }
        }
    }
    if case % 41 == 0 {
        rep.sample(detail);
    }
}

fn prune_case(_ctx: &Ctx, case: u64, r: &mut Rng, rep: &mut Report) {
    let uni = Universe::new(1);
    let key = MasterKey::new();
    let base_opts = ConfigOptions::default().set_datapack_size(ByteSize(2500)).set_treepack_size(ByteSize(600)).set_chunk_size(ByteSize(1024)).set_chunk_min_size(ByteSize(512)).set_chunk_max_size(ByteSize(4096));
    if new_repo(uni.backend(0), None).and_then(|x| x.init(&creds(&key), &rustic_core::KeyOptions::default(), &base_opts)).is_err() {
        return;
    }
    let env = Env::single(uni.clone(), key.clone());
    for i in 0..3 {
        if !smoke(&env, r, 1_690_000_000 + i * 10).is_empty() {
            return;
        }
    }
    let _ = Cmd::Forget { positions: vec![0] }.run(&env);
    let before = match read_each_snapshot(&env, r) {
        Ok(b) => b,
        Err(_) => return,
    };
    let lim = |r: &mut Rng| -> (LimitOption, String) {
        match r.below(11) {
            0 => (LimitOption::Percentage(0), "0%".into()),
            1 => (LimitOption::Percentage(5), "5%".into()),
            2 => (LimitOption::Percentage(99), "99%".into()),
            3 => (LimitOption::Percentage(100), "100%".into()),
            4 => (LimitOption::Percentage(101), "101%".into()),
            5 => (LimitOption::Percentage(u64::MAX), "u64::MAX%".into()),
            6 => (LimitOption::Size(ByteSize(0)), "0B".into()),
            7 => (LimitOption::Size(ByteSize(1)), "1B".into()),
            8 => (LimitOption::Size(ByteSize(u64::MAX)), "u64::MAX B".into()),
            9 => (LimitOption::Percentage(1000), "1000%".into()),
            _ => (LimitOption::Unlimited, "unlimited".into()),
        }
    };
    let span = |r: &mut Rng| -> (Span, String) {
        match r.below(5) {
            0 => (Span::new(), "0".into()),
            1 => (Span::new().hours(-5), "-5h".into()),
            2 => (Span::new().hours(1), "1h".into()),
            3 => (Span::new().days(7_000_000), "7e6 days".into()),
            _ => (Span::new().seconds(-1), "-1s".into()),
        }
    };
    let (mu, mu_s) = lim(r);
    let (mr, mr_s) = lim(r);
    let (kp, kp_s) = span(r);
    let (kd, kd_s) = span(r);
    let opts = PruneOptions::default().max_unused(mu).max_repack(mr).keep_pack(kp).keep_delete(kd).instant_delete(r.chance(1, 3)).repack_all(r.chance(1, 4)).no_resize(r.chance(1, 3));
    let detail = json!({"max_unused": mu_s, "max_repack": mr_s, "keep_pack": kp_s, "keep_delete": kd_s});
    rep.evaluations += 1;
    let res = catch(|| -> Result<(), String> {
        let repo = env.open()?;
        let plan = repo.prune_plan(&opts).map_err(|e| format!("prune_plan: {}", errstr(&e)))?;
        repo.prune(&opts, plan).map_err(|e| format!("prune: {}", errstr(&e)))
    });
    match res {
        Err(p) => {
            let which = if p.contains("divide by zero") { "divide-by-zero" } else if p.contains("overflow") { "overflow" } else { "other" };
            rep.violation(case, format!("panic:prune-options:{which}"), format!("prune with max_unused={mu_s} max_repack={mr_s} keep_pack={kp_s} keep_delete={kd_s} panicked: {p}"), detail.clone());
        }
        Ok(r0) => {
            rep.set_add("prune_option_results", if r0.is_ok() { "ok" } else { "error" });
        }
    }
    // whatever the options: nothing referenced may be lost
    match read_each_snapshot(&env, r) {
        Err(e) => rep.violation(case, "prune-options:unreadable", e, detail.clone()),
        Ok(after) => {
            for (id, (_, o)) in &before {
                if let (Ok(a), Some(Ok(b))) = (o, after.get(id).map(|x| &x.1)) {
                    if !crate::observe::diff_obs(a, b, CmpOpts::ALL).is_empty() {
                        rep.violation(case, "prune-options:content-changed", format!("snapshot {id} changed"), detail.clone());
                    }
                } else if o.is_ok() {
                    rep.violation(case, "prune-options:snapshot-lost", format!("snapshot {id} is no longer readable"), detail.clone());
                }
            }
        }
    }
    rep.class(format!("prune/unused={mu_s}/repack={mr_s}"));
}

pub fn run(ctx: &Ctx) -> (Report, Meta) {
    let space = Arc::new(single_field_space());
    let n_single = space.len() as u64 * 2;
    let n_random = ctx.tier.pick(200u64, 12_000);
    let sp = space.clone();
    let mut rep = run_cases(ctx, n_single + n_random, &|c, i, r, rep| config_case(c, i, r, rep, &sp));
    rep.count("single_field_options_enumerated", space.len() as u64);
    let mut c2 = ctx.clone();
    c2.seed ^= 0x18b;
    rep.merge({ let mut cb = c2.clone(); cb.case_base = 10_000_000; run_cases(&cb, ctx.tier.pick(120, 4000), &|c, i, r, rep| prune_case(c, i + 10_000_000, r, rep)) });
    let meta = Meta {
        level: "exploration",
        rule: "configuration space: every ConfigOptions field alone at {0, 1, boundary-1, boundary, boundary+1, interior, huge} (enumerated exhaustively, each both at init and as a change of an existing repository holding data), plus random combinations of interacting fields (chunker x sizes, version x compression, pack size x grow factor x limit, tolerate percents) and change sequences of length <= 3. Accepted => smoke run: backup of a tree with empty, small, multi-chunk, all-zero files and a symlink, check(read_data) clean, every snapshot reads back equal to its source - each step under catch_unwind (no panic allowed). A change must alter exactly the config keys it names (field-wise diff of the decoded stored config); a refused change must leave the stored bytes untouched and write nothing; version downgrades are refused. PruneOptions: both limits over {0%,5%,99%,100%,101%,1000%,u64::MAX%,0 B,1 B,u64::MAX B,unlimited} x keep spans {0,-5h,-1s,1h,7e6 days}: result or error, never a panic, nothing referenced lost. distinct_nontrivial = distinct (init|change, accepted|refused, named keys) / prune limit pairs".to_string(),
        exhaustive: false,
        assumptions: vec!["the single-field enumeration is complete for the listed value sets; combinations and sequences are sampled".to_string(), "compression levels >= 15 are sampled (seconds per smoke run)".to_string()],
    };
    (rep, meta)
}
