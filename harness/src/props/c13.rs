//! C13 Results do not depend on thread scheduling, latency or pack boundaries
//!
//! Runs are executed in worker SUBPROCESSES (`rcv C13 --worker ...`) so that the rayon pool size can
//! be varied, a hang can be classified from /proc and gdb, and the process-global yield hook (H4) can
//! be installed without disturbing anything else.

use std::{
    collections::{BTreeMap, BTreeSet},
    io::{BufRead, BufReader},
    process::{Command, Stdio},
    sync::Arc,
    time::{Duration, Instant},
};

use bytesize::ByteSize;
use rustic_core::{BackupOptions, ConfigOptions, FileType, Id, ParentOptions, repofile::Chunker, repofile::ConfigFile, repofile::MasterKey, verif};
use serde_json::{Value, json};

use crate::{
    cmds::{Cmd, Env, Limit, PruneSpec, read_each_snapshot},
    evidence::{Ctx, Meta, Report, Tier, catch},
    model::{ContentClass, Entry, Frag, Kind, ModelTree, gen_content, pk},
    observe::{CmpOpts, diff_model},
    props::c08::verify_all_packs,
    rawrepo::{RawKey, index_view, reachable},
    repo::{backup_model, check_full, errstr, snap_at},
    rng::{Rng, fnv},
    store::Universe,
};

fn source(r: &mut Rng, shape: u64) -> ModelTree {
    let mut m = ModelTree::new();
    let file = |r: &mut Rng, len: usize| {
        let cc = *r.pick(&[ContentClass::Random, ContentClass::Periodic, ContentClass::Holes]);
        Kind::File(Arc::new(gen_content(r, cc, len)))
    };
    match shape % 4 {
        3 => {
            // very wide: more than a thousand directories with distinct content, so that the tree walkers of prune,
            // check and copy have (far) more trees pending than their queues and thread pools hold
            for d in 0..1150 {
                let len = 8 + r.usize_below(24);
                let k = file(r, len);
                m.insert(pk(&format!("w/d{d:04}/f")), Entry { kind: k, mode: 0o644, mtime: (1_650_000_300, 0), hardlink: None });
            }
        }
        0 => {
            // many small files in several directories: keeps the tree side busy
            for d in 0..6 {
                for f in 0..10 {
                    let len = 50 + r.usize_below(1500);
                    let k = file(r, len);
                    m.insert(pk(&format!("d{d}/f{f}")), Entry { kind: k, mode: 0o644, mtime: (1_650_000_000 + f, 0), hardlink: None });
                }
            }
        }
        1 => {
            // few large files: keeps the data packer busy
            for f in 0..3 {
                let len = 120_000 + r.usize_below(80_000);
                let k = file(r, len);
                m.insert(pk(&format!("big{f}.bin")), Entry { kind: k, mode: 0o600, mtime: (1_650_000_100 + f, 0), hardlink: None });
            }
        }
        _ => {
            for f in 0..20 {
                let len = if f % 5 == 0 { 40_000 } else { 300 };
                let k = file(r, len);
                m.insert(pk(&format!("mix/s{}/f{f}", f % 4)), Entry { kind: k, mode: 0o644, mtime: (1_650_000_200 + f, 0), hardlink: None });
            }
            // duplicate content across files
            let dup = m.entries.values().find(|e| matches!(e.kind, Kind::File(_))).cloned().unwrap();
            m.insert(pk("mix/dup1"), dup.clone());
            m.insert(pk("mix/dup2"), dup);
        }
    }
    m
}

fn base_config(scen: u64) -> ConfigFile {
    // fixed chunker settings per scenario: tree ids must then be a function of the source only
    let (avg, min, max) = [(1024usize, 512usize, 4096usize), (512, 64, 2048), (4096, 1024, 8192)][(scen % 3) as usize];
    serde_json::from_value(json!({
        "version": 2, "id": "00".repeat(32), "chunker_polynomial": format!("{:x}", crate::props::c06::POLYS[(scen % 4) as usize]),
        "chunker": if scen % 5 == 4 { "FixedSize" } else { "Rabin" },
        "chunk_size": avg, "chunk_min_size": min, "chunk_max_size": max,
    }))
    .expect("config")
}

/// one worker process: `runs` perturbed executions of the same scenario; prints one JSON line per run
pub fn worker(seed: u64, scen: u64, runs: u64, first_run: u64) {
    let mut rs = Rng::new(seed).fork(0xc13 + scen);
    let model = source(&mut rs, scen);
    let mut model2 = model.clone();
    // second state for the prune/copy part
    if let Some((k, e)) = model2.entries.iter().find(|(_, e)| matches!(e.kind, Kind::File(_))).map(|(k, e)| (k.clone(), e.clone())) {
        if let Kind::File(b) = &e.kind {
            let mut v = b.as_ref().clone();
            v.extend_from_slice(b"tail");
            model2.insert(k, Entry { kind: Kind::File(Arc::new(v)), mode: e.mode, mtime: (e.mtime.0 + 1, 0), hardlink: None });
        }
    }
    for run in first_run..first_run + runs {
        let mut r = Rng::new(seed).fork(0x7000 + scen * 1000 + run);
        let mut cfg = base_config(scen);
        // everything that must NOT influence the result varies per run
        let datapack = *r.pick(&[1u32, 1, 4096, 65_536, 32 << 20]);
        let treepack = *r.pick(&[1u32, 300, 4096, 4 << 20]);
        let opts = ConfigOptions::default()
            .set_datapack_size(ByteSize(u64::from(datapack)))
            .set_treepack_size(ByteSize(u64::from(treepack)))
            .set_compression(*r.pick(&[0, 1, 3, -3]))
            .set_extra_verify(r.chance(1, 2));
        if cfg.chunker == Some(Chunker::FixedSize) {
            cfg.chunk_min_size = None;
            cfg.chunk_max_size = None;
        }
        opts.apply(&mut cfg).expect("config options");
        let delay_seed = r.next_u64();
        let delay_max = *r.pick(&[0u64, 200, 1000, 3000]);
        let yield_seed = r.next_u64();
        let yield_max = *r.pick(&[0u64, 100, 1500]);
        // H5: where the index files of a run are cut must not matter either
        let mut rf = Rng::new(seed ^ 0xF1A5).fork(scen * 1000 + run);
        crate::evidence::set_flush(if rf.chance(1, 2) { None } else { Some(*rf.pick(&[1usize, 3, 7, 40])) });
        // H4: seeded sleeps between the pipeline stages
        let counter = Arc::new(std::sync::atomic::AtomicU64::new(0));
        {
            let counter = counter.clone();
            verif::set_yield_hook(Some(Arc::new(move |name: &'static str| {
                let n = counter.fetch_add(1, std::sync::atomic::Ordering::Relaxed);
                if yield_max > 0 {
                    let mut x = Rng::new(yield_seed ^ n.wrapping_mul(0x9e37) ^ fnv(name.as_bytes()));
                    let us = if x.chance(1, 4) { x.below(yield_max) } else { 0 };
                    if us > 0 {
                        std::thread::sleep(Duration::from_micros(us));
                    } else {
                        std::thread::yield_now();
                    }
                }
            })));
        }
        let t0 = Instant::now();
        let res = catch(|| -> Result<Value, String> {
            let uni = Universe::new(1);
            let key = MasterKey::new();
            let _ = crate::repo::init_with_config(uni.backend(0), &key, cfg.clone()).map_err(|e| errstr(&e))?;
            uni.set_delay(if delay_max > 0 { Some((delay_seed, delay_max)) } else { None });
            let env = Env::single(uni.clone(), key.clone());
            uni.clear_log();
            let repo = env.ids()?;
            let snap = backup_model(&repo, &model, Frag::Whole, &BackupOptions::default().parent_opts(ParentOptions::default().force(true)), snap_at(1_700_000_000, "h")).map_err(|e| errstr(&e))?;
            drop(repo);
            let log = uni.take_log();
            let order: Vec<String> = log.iter().filter(|e| e.op.mutating()).map(|e| format!("{}:{}:{}", e.op.name(), crate::store::ft_name(e.tpe), e.len)).collect();
            let order_hash = fnv(order.join(",").as_bytes());
            uni.set_delay(None);
            let rk = RawKey::from_master(&key);
            let st = uni.state(0);
            let mut problems: Vec<String> = Vec::new();
            let view = index_view(&rk, &st)?;
            let mut refs = BTreeSet::new();
            let tree: Id = *snap.tree;
            if let Err(e) = reachable(&rk, &st, &view, &tree, &mut refs) {
                problems.push(format!("referenced blob not readable through the index: {e}"));
            }
            for k in &refs {
                if !view.blobs.contains_key(k) {
                    problems.push(format!("referenced {}:{} is not indexed", k.0, k.1));
                }
            }
            let (_, pp) = verify_all_packs(&rk, &st);
            problems.extend(pp.into_iter().take(3));
            // no pack outside the index, no indexed blob that nothing references (fresh repository, one snapshot)
            for id in st.ids(FileType::Pack) {
                if !view.packs.contains_key(&id) {
                    problems.push(format!("pack {id} was written but is not in the index"));
                }
            }
            for k in view.blobs.keys() {
                if !refs.contains(k) {
                    problems.push(format!("indexed blob {}:{} is not referenced by the snapshot", k.0, k.1));
                }
            }
            let refs_hash = fnv(refs.iter().map(|k| format!("{}{}", k.0, k.1.to_hex().as_str())).collect::<Vec<_>>().join(",").as_bytes());
            let mut partition: Vec<String> = view.packs.values().map(|p| p.blobs.iter().map(|b| b.id.to_hex()[..8].to_string()).collect::<Vec<_>>().join("+")).collect();
            partition.sort();
            let partition_hash = fnv(partition.join("|").as_bytes());
            let dup_blobs = view.blobs.values().filter(|l| l.len() > 1).count();
            // second backup, forget the first, prune with repacking, everything under the same perturbation
            uni.set_delay(if delay_max > 0 { Some((delay_seed ^ 1, delay_max)) } else { None });
            let repo = env.ids()?;
            let snap2 = backup_model(&repo, &model2, Frag::Whole, &BackupOptions::default(), snap_at(1_700_000_100, "h")).map_err(|e| errstr(&e))?;
            drop(repo);
            Cmd::Forget { positions: vec![0] }.run_plain(&env)?;
            let mut spec = PruneSpec::default_safe();
            spec.max_unused = Limit::Pct(0);
            spec.repack_all = true;
            spec.fast_repack = r.chance(1, 2);
            spec.instant_delete = r.chance(1, 2);
            Cmd::Prune { spec }.run_plain(&env)?;
            uni.set_delay(None);
            let errs = env.open().and_then(|repo| check_full(&repo).map_err(|e| errstr(&e)))?;
            if let Some(e) = errs.first() {
                problems.push(format!("check after prune: {e}"));
            }
            // "leaves no blob unreferenced by the index": after the prune every pack in storage is listed by some index
            // file, as a live pack or as one marked for deletion
            {
                let st2 = uni.state(0);
                let view2 = index_view(&rk, &st2)?;
                for id in st2.ids(FileType::Pack) {
                    if !view2.packs.contains_key(&id) && !view2.marked.contains_key(&id) {
                        problems.push(format!("after prune: pack {id} is in storage but no index file lists it (neither as a pack nor as marked for deletion)"));
                    }
                }
            }
            let mut rr = Rng::new(1);
            let m = read_each_snapshot(&env, &mut rr)?;
            match m.get(&*snap2.id).map(|x| &x.1) {
                Some(Ok(o)) => {
                    if let Some(d) = diff_model(&model2, o, CmpOpts::ALL).first() {
                        problems.push(format!("after prune the snapshot differs from its source: {d}"));
                    }
                }
                other => problems.push(format!("after prune the snapshot is unreadable: {:?}", other.map(|x| x.as_ref().err()))),
            }
            // copy into a second repository under perturbation
            let uni2 = Universe::new(1);
            let key2 = MasterKey::new();
            let mut cfg2 = base_config(scen + 1);
            ConfigOptions::default().set_datapack_size(ByteSize(u64::from(datapack))).apply(&mut cfg2).map_err(|e| errstr(&e))?;
            let _ = crate::repo::init_with_config(uni2.backend(0), &key2, cfg2).map_err(|e| errstr(&e))?;
            uni2.set_delay(if delay_max > 0 { Some((delay_seed ^ 2, delay_max)) } else { None });
            let env2 = Env::single(uni2.clone(), key2);
            uni.lock().recording = false;
            Cmd::CopyFrom { src: env.clone() }.run_plain(&env2)?;
            uni2.set_delay(None);
            let m2 = read_each_snapshot(&env2, &mut rr)?;
            let ok = m2.values().any(|(_, o)| o.as_ref().is_ok_and(|o| diff_model(&model2, o, CmpOpts::ALL).is_empty()));
            if !ok {
                problems.push("copied snapshot does not read back equal to its source".to_string());
            }
            Ok(json!({
                "tree": snap.tree.to_string(), "tree2": snap2.tree.to_string(), "refs_hash": refs_hash, "n_refs": refs.len(),
                "order_hash": order_hash, "partition_hash": partition_hash, "n_packs": view.packs.len(), "dup_blobs": dup_blobs,
                "problems": problems, "events": log.len(),
            }))
        });
        verif::set_yield_hook(None);
        let line = match res {
            Ok(Ok(mut v)) => {
                v["run"] = json!(run);
                v["yield_points_hit"] = json!(counter.load(std::sync::atomic::Ordering::Relaxed));
                v["ms"] = json!(t0.elapsed().as_millis() as u64);
                v["perturbation"] = json!({"datapack": datapack, "treepack": treepack, "delay_max_us": delay_max, "yield_max_us": yield_max});
                v
            }
            Ok(Err(e)) => json!({"run": run, "error": e}),
            Err(p) => json!({"run": run, "panic": p}),
        };
        println!("RUNRESULT {line}");
    }
}

/// the workload run under Miri / ThreadSanitizer: tiny backup through the whole threaded pipeline, read back,
/// prune with repacking. No zstd (FFI) on this path: compression 0, config built directly.
pub fn sanitizer_workload(rounds: u64) {
    for round in 0..rounds {
        let mut r = Rng::new(0x5a17 + round);
        let mut m = ModelTree::new();
        m.insert(pk("a/one"), Entry { kind: Kind::File(Arc::new(r.bytes(150))), mode: 0o644, mtime: (1_650_000_000, 0), hardlink: None });
        m.insert(pk("a/two"), Entry { kind: Kind::File(Arc::new(r.bytes(40))), mode: 0o600, mtime: (1_650_000_001, 0), hardlink: None });
        m.insert(pk("b"), Entry { kind: Kind::File(Arc::new(vec![7u8; 64])), mode: 0o644, mtime: (1_650_000_002, 0), hardlink: None });
        let cfg: ConfigFile = serde_json::from_value(json!({
            "version": 2, "id": "11".repeat(32), "chunker_polynomial": format!("{:x}", crate::props::c06::POLYS[0]),
            "chunker": "FixedSize", "chunk_size": 64, "compression": 0, "datapack_size": 1, "treepack_size": 200, "extra_verify": true,
        }))
        .expect("config");
        let uni = Universe::new(1);
        let key = MasterKey::new();
        let _ = crate::repo::init_with_config(uni.backend(0), &key, cfg).expect("init");
        let env = Env::single(uni.clone(), key.clone());
        let repo = env.ids().expect("open");
        let snap = backup_model(&repo, &m, Frag::Whole, &BackupOptions::default().parent_opts(ParentOptions::default().force(true)), snap_at(1_700_000_000, "h")).expect("backup");
        drop(repo);
        let mut rr = Rng::new(1);
        let all = read_each_snapshot(&env, &mut rr).expect("read");
        let obs = all[&*snap.id].1.as_ref().expect("readable");
        assert!(diff_model(&m, obs, CmpOpts::ALL).is_empty(), "content differs");
        let rk = RawKey::from_master(&key);
        let (n, probs) = verify_all_packs(&rk, &uni.state(0));
        assert!(probs.is_empty(), "{probs:?}");
        println!("SANITIZER-ROUND-OK round={round} tree={} packs={n}", snap.tree);
    }
}

/// thorough tier: the pipeline workload under Miri (many scheduler seeds) and ThreadSanitizer
fn sanitizer_tiers(ctx: &Ctx, rep: &mut Report) {
    let harness = ctx.verif_root.join("harness");
    let work = ctx.work.clone();
    // ---- ThreadSanitizer ----
    let t0 = Instant::now();
    let build = Command::new("cargo")
        .current_dir(&harness)
        .args(["+nightly", "build", "-Zbuild-std", "--target", "x86_64-unknown-linux-gnu", "--offline", "--no-default-features", "--target-dir", "target-tsan"])
        .env("RUSTFLAGS", "-Zsanitizer=thread")
        .env("CARGO_NET_OFFLINE", "true")
        .output();
    match build {
        Ok(o) if o.status.success() => {
            let exe = harness.join("target-tsan/x86_64-unknown-linux-gnu/debug/rcv");
            let log = work.join(format!("tsan-{}.log", std::process::id()));
            let mut runs_ok = 0u64;
            for (scen, threads) in [(0u64, 4usize), (1, 16), (2, 2)] {
                let out = Command::new(&exe)
                    .args(["C13", "--worker", &ctx.seed.to_string(), &scen.to_string(), "6", "0"])
                    .env("RAYON_NUM_THREADS", threads.to_string())
                    .env("TSAN_OPTIONS", format!("halt_on_error=0 exitcode=0 log_path={}", log.display()))
                    .output();
                if let Ok(o) = out {
                    runs_ok += String::from_utf8_lossy(&o.stdout).lines().filter(|l| l.starts_with("RUNRESULT") && !l.contains("\"panic\"") && !l.contains("\"error\"")).count() as u64;
                }
            }
            let out = Command::new(&exe).args(["C13", "--sanitizer-workload", "200"]).env("RAYON_NUM_THREADS", "8").env("TSAN_OPTIONS", format!("halt_on_error=0 exitcode=0 log_path={}", log.display())).output();
            if let Ok(o) = out {
                runs_ok += String::from_utf8_lossy(&o.stdout).lines().filter(|l| l.starts_with("SANITIZER-ROUND-OK")).count() as u64;
            }
            rep.count("tsan_runs_completed", runs_ok);
            rep.evaluations += runs_ok;
            // count report blocks in the per-process logs; dedupe by first frame inside rustic_core
            let mut reports: BTreeMap<String, u64> = BTreeMap::new();
            if let Ok(rd) = std::fs::read_dir(&work) {
                for e in rd.flatten() {
                    let name = e.file_name().to_string_lossy().to_string();
                    if name.starts_with(&format!("tsan-{}.log", std::process::id())) {
                        let txt = std::fs::read_to_string(e.path()).unwrap_or_default();
                        for block in txt.split("WARNING: ThreadSanitizer:").skip(1) {
                            let kind = block.lines().next().unwrap_or("").trim().to_string();
                            let frame = block.lines().find(|l| l.contains("rustic_core")).map_or_else(|| "(no rustic_core frame)".to_string(), |l| l.trim().split(" in ").nth(1).unwrap_or(l).chars().take(120).collect());
                            *reports.entry(format!("{kind} @ {frame}")).or_default() += 1;
                        }
                        let _ = std::fs::remove_file(e.path());
                    }
                }
            }
            rep.count("tsan_distinct_reports", reports.len() as u64);
            for (k, n) in &reports {
                if k.contains("(no rustic_core frame)") {
                    rep.notes.push(format!("TSan report outside rustic_core ({n}x): {k}"));
                } else {
                    rep.violation(13_000, "tsan:report-in-rustic_core", format!("ThreadSanitizer report with a rustic_core frame ({n}x): {k}"), json!({"report": k}));
                }
            }
            rep.notes.push(format!("ThreadSanitizer tier: build+run {:.0}s, {runs_ok} runs, {} distinct reports", t0.elapsed().as_secs_f64(), reports.len()));
            rep.class("sanitizer/tsan".to_string());
        }
        Ok(o) => rep.inconclusive(format!("ThreadSanitizer build failed: {}", String::from_utf8_lossy(&o.stderr).lines().rev().take(3).collect::<Vec<_>>().join(" | "))),
        Err(e) => rep.inconclusive(format!("ThreadSanitizer build could not be started: {e}")),
    }
    // ---- Miri ----
    let t0 = Instant::now();
    let seeds = 16;
    let out = Command::new("cargo")
        .current_dir(&harness)
        .args(["+nightly", "miri", "run", "--offline", "--no-default-features", "--bin", "rcv", "--target-dir", "target-miri", "--", "C13", "--sanitizer-workload", "1"])
        .env("MIRIFLAGS", format!("-Zmiri-disable-isolation -Zmiri-tree-borrows -Zmiri-ignore-leaks -Zmiri-many-seeds=0..{seeds}"))
        // the driver's large rayon pool (meant for harness concurrency) would cost the interpreter hours
        .env("RAYON_NUM_THREADS", "4")
        .env("CARGO_NET_OFFLINE", "true")
        .output();
    match out {
        Err(e) => rep.inconclusive(format!("Miri could not be started: {e}")),
        Ok(o) => {
            let stdout = String::from_utf8_lossy(&o.stdout).to_string();
            let stderr = String::from_utf8_lossy(&o.stderr).to_string();
            let ok = stdout.lines().filter(|l| l.starts_with("SANITIZER-ROUND-OK")).count() as u64;
            rep.count("miri_seeds_completed", ok);
            rep.evaluations += ok;
            let errors: Vec<&str> = stderr.lines().filter(|l| l.starts_with("error")).collect();
            if !o.status.success() || !errors.is_empty() {
                if stderr.contains("could not compile") || stderr.contains("no such command") {
                    rep.inconclusive(format!("Miri tier did not run: {}", errors.first().copied().unwrap_or("build failure")));
                } else {
                    let path = ctx.verif_root.join("replays").join(format!("C13-miri-{}.log", ctx.seed));
                    let _ = std::fs::write(&path, &stderr);
                    let first = errors.first().copied().unwrap_or("non-zero exit").to_string();
                    let sig = if first.contains("deadlock") { "miri:deadlock" } else if first.contains("Data race") || first.contains("data race") { "miri:data-race" } else if first.contains("Undefined Behavior") { "miri:undefined-behaviour" } else { "miri:error" };
                    rep.violation(13_001, sig, format!("Miri ({ok}/{seeds} seeds completed): {first}; full log {}", path.display()), json!({}));
                }
            }
            rep.notes.push(format!("Miri tier: {ok}/{seeds} scheduler seeds completed the backup+read+verify workload in {:.0}s (tree borrows, isolation off, leaks ignored)", t0.elapsed().as_secs_f64()));
            rep.class("sanitizer/miri".to_string());
        }
    }
}

fn proc_cpu_ticks(pid: u32) -> Option<(u64, Vec<char>)> {
    let mut total = 0u64;
    let mut states = Vec::new();
    for e in std::fs::read_dir(format!("/proc/{pid}/task")).ok()? {
        let p = e.ok()?.path().join("stat");
        let s = std::fs::read_to_string(p).ok()?;
        let after = s.rsplit_once(')')?.1.trim().to_string();
        let f: Vec<&str> = after.split_whitespace().collect();
        states.push(f.first()?.chars().next()?);
        total += f.get(11)?.parse::<u64>().ok()? + f.get(12)?.parse::<u64>().ok()?;
    }
    Some((total, states))
}

pub fn run(ctx: &Ctx) -> (Report, Meta) {
    let mut rep = Report::new();
    let exe = std::env::current_exe().expect("current exe");
    let n_scen = ctx.tier.pick(4u64, 12);
    let runs_per_worker = ctx.tier.pick(10u64, 60);
    let thread_opts = [1usize, 2, 4, 16];
    // (scenario, threads) -> child
    let mut jobs: Vec<(u64, usize)> = Vec::new();
    for s in 0..n_scen {
        for t in thread_opts {
            jobs.push((s, t));
        }
    }
    let max_par = 4;
    let watchdog = Duration::from_secs(ctx.tier.pick(240, 1500));
    let mut results: BTreeMap<u64, Vec<(usize, Value)>> = BTreeMap::new();
    for chunk in jobs.chunks(max_par) {
        let mut children = Vec::new();
        for (i, (s, t)) in chunk.iter().enumerate() {
            let first_run = (*t as u64) * 1000;
            let child = Command::new(&exe)
                .args(["C13", "--worker", &ctx.seed.to_string(), &s.to_string(), &runs_per_worker.to_string(), &first_run.to_string()])
                .env("RAYON_NUM_THREADS", t.to_string())
                .stdout(Stdio::piped())
                .stderr(Stdio::null())
                .spawn();
            match child {
                Ok(c) => children.push((i, *s, *t, c, Instant::now())),
                Err(e) => rep.inconclusive(format!("cannot spawn worker: {e}")),
            }
        }
        for (_, s, t, mut c, started) in children {
            let out = c.stdout.take().unwrap();
            let pid = c.id();
            // read lines on a thread so that the watchdog can fire
            let (tx, rx) = std::sync::mpsc::channel::<String>();
            let reader = std::thread::spawn(move || {
                for l in BufReader::new(out).lines().map_while(Result::ok) {
                    let _ = tx.send(l);
                }
            });
            let mut finished = false;
            loop {
                match rx.recv_timeout(Duration::from_secs(2)) {
                    Ok(l) => {
                        if let Some(j) = l.strip_prefix("RUNRESULT ") {
                            if let Ok(v) = serde_json::from_str::<Value>(j) {
                                results.entry(s).or_default().push((t, v));
                            }
                        }
                    }
                    Err(std::sync::mpsc::RecvTimeoutError::Disconnected) => {
                        finished = true;
                        break;
                    }
                    Err(std::sync::mpsc::RecvTimeoutError::Timeout) => {
                        if started.elapsed() > watchdog {
                            break;
                        }
                    }
                }
            }
            if !finished {
                // deadlock classifier: all threads asleep and no CPU progress over 5 s => violation with a gdb dump
                let a = proc_cpu_ticks(pid);
                std::thread::sleep(Duration::from_secs(5));
                let b = proc_cpu_ticks(pid);
                let stuck = matches!((&a, &b), (Some((ta, _)), Some((tb, sb))) if ta == tb && sb.iter().all(|c| *c == 'S' || *c == 'D'));
                if stuck {
                    let dump = Command::new("gdb").args(["-p", &pid.to_string(), "-batch", "-ex", "thread apply all bt 12"]).output().map(|o| String::from_utf8_lossy(&o.stdout).to_string()).unwrap_or_default();
                    let path = ctx.verif_root.join("replays").join(format!("C13-hang-{}-{s}-{t}.txt", ctx.seed));
                    let _ = std::fs::write(&path, &dump);
                    rep.violation(s * 100 + t as u64, "hang:all-threads-blocked", format!("worker (scenario {s}, {t} rayon threads) made no progress: all threads sleeping with zero CPU delta; gdb dump in {}", path.display()), json!({"scenario": s, "threads": t}));
                } else {
                    rep.inconclusive(format!("worker (scenario {s}, {t} threads) exceeded the watchdog while still consuming CPU"));
                }
                let _ = c.kill();
            }
            let _ = c.wait();
            let _ = reader.join();
        }
    }
    // oracle across runs of one scenario
    let mut all_orders = BTreeSet::new();
    let mut all_partitions = BTreeSet::new();
    for (s, runs) in &results {
        let mut trees: BTreeMap<String, Vec<String>> = BTreeMap::new();
        let mut refs: BTreeMap<u64, Vec<String>> = BTreeMap::new();
        let mut orders = BTreeSet::new();
        let mut partitions = BTreeSet::new();
        for (t, v) in runs {
            rep.evaluations += 1;
            let label = format!("threads={t} run={} {}", v["run"], v["perturbation"]);
            if let Some(p) = v.get("panic").and_then(Value::as_str) {
                rep.violation(*s, format!("panic:{}", crate::evidence::panic_sig(p)), format!("scenario {s} ({label}): panic {p}"), v.clone());
                continue;
            }
            if let Some(e) = v.get("error").and_then(Value::as_str) {
                rep.violation(*s, "run-error", format!("scenario {s} ({label}): {e}"), v.clone());
                continue;
            }
            for p in v["problems"].as_array().cloned().unwrap_or_default() {
                let p = p.as_str().unwrap_or("").to_string();
                let sig = if p.contains("not indexed") || p.contains("not in the index") { "blob-or-pack-outside-index" } else if p.contains("not referenced") { "unreferenced-blob-stored" } else if p.contains("after prune") { "prune-under-perturbation" } else if p.contains("copied") { "copy-under-perturbation" } else { "storage-inconsistent" };
                rep.violation(*s, sig, format!("scenario {s} ({label}): {p}"), v.clone());
            }
            trees.entry(format!("{}/{}", v["tree"].as_str().unwrap_or(""), v["tree2"].as_str().unwrap_or(""))).or_default().push(label.clone());
            refs.entry(v["refs_hash"].as_u64().unwrap_or(0)).or_default().push(label.clone());
            let _ = orders.insert(v["order_hash"].as_u64().unwrap_or(0));
            let _ = partitions.insert(v["partition_hash"].as_u64().unwrap_or(0));
            rep.count("yield_points_hit", v["yield_points_hit"].as_u64().unwrap_or(0));
            rep.count("backend_events_recorded", v["events"].as_u64().unwrap_or(0));
            rep.count("in_run_duplicate_blobs", v["dup_blobs"].as_u64().unwrap_or(0));
            rep.max("max_run_ms", v["ms"].as_u64().unwrap_or(0));
        }
        if trees.len() > 1 {
            rep.violation(*s, "tree-id-depends-on-schedule", format!("scenario {s}: {} different tree ids for the same source and chunker settings: {:?}", trees.len(), trees.iter().map(|(k, v)| (k.clone(), v[0].clone())).collect::<Vec<_>>()), json!({"scenario": s}));
        }
        if refs.len() > 1 {
            rep.violation(*s, "referenced-set-depends-on-schedule", format!("scenario {s}: {} different referenced blob sets", refs.len()), json!({"scenario": s}));
        }
        rep.count("distinct_event_orders", orders.len() as u64);
        rep.count("distinct_pack_partitions", partitions.len() as u64);
        if orders.len() < 2 {
            rep.inconclusive(format!("scenario {s}: fewer than 2 distinct storage event orders observed"));
        }
        for o in &orders {
            let _ = all_orders.insert((*s, *o));
        }
        for p in &partitions {
            let _ = all_partitions.insert((*s, *p));
        }
        for (t, _) in runs {
            rep.class(format!("scenario{s}/threads{t}"));
        }
        if let Some((t, v)) = runs.first() {
            rep.sample(json!({"scenario": s, "threads": t, "run": v}));
        }
    }
    if ctx.tier == Tier::Thorough && ctx.only_case.is_none() {
        sanitizer_tiers(ctx, &mut rep);
    }
    let meta = Meta {
        level: "exploration",
        rule: "scenario = fixed source tree (many small files / few large files / mixed with duplicates) + fixed chunker settings; every run of a scenario varies ONLY what must not matter: data/tree pack size (one blob per pack ... default), compression, extra_verify, seeded heavy-tailed latency at every backend call, seeded sleeps at the 6 pipeline yield points (hook H4), rayon pool size 1/2/4/16 (worker subprocesses). Per run: backup (tree id, referenced set via independent raw parse, every pack verified against the index, no pack outside the index, no stored blob unreferenced), then second backup + forget + prune(repack-all, instant or marking) + check + full read + every pack in storage still listed by the index (live or marked), then copy into a second repository + full read - all under the same perturbation. Across runs of a scenario: tree ids and referenced sets identical. A worker that stops making progress is classified from /proc (all threads sleeping, zero CPU delta => violation with gdb dump; otherwise inconclusive). distinct_nontrivial = distinct (scenario, pool size); evidence lists distinct storage event orders and pack partitions observed".to_string(),
        exhaustive: false,
        assumptions: vec![
            "interleavings are sampled by seeded delays, not enumerated; a scenario with fewer than 2 distinct event orders is reported inconclusive".to_string(),
            "Miri / ThreadSanitizer tiers: see DESIGN.md section 4 (status recorded there)".to_string(),
        ],
    };
    let _ = Tier::Quick;
    (rep, meta)
}
