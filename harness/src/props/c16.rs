//! C16 Hot/cold repositories keep the hot copy complete at every moment

use std::{
    collections::BTreeMap,
    sync::{Arc, Mutex},
};

use bytesize::ByteSize;
use rustic_core::{FileType, Id, RestoreOptions, repofile::MasterKey};
use serde_json::json;

use crate::{
    cfggen::{GenCfg, gen_config},
    cmds::{Cmd, Env, Limit, PruneSpec, read_each_snapshot},
    evidence::{Ctx, Meta, Report, catch, panic_sig, run_cases},
    model::{ALL_EDITS, ModelTree, NameClass, TreeParams, apply_edit, gen_tree},
    observe::{CmpOpts, Observed, diff_obs, restore_to},
    rawrepo::{RawKey, parse_pack_trailer},
    repo::errstr,
    rng::Rng,
    store::{Event, Op, StoreState, Universe, ev_desc, ft_name},
};

const COLD: usize = 0;
const HOT: usize = 1;

/// is this pack a tree pack? (independent trailer parse; empty or unparsable => None)
fn pack_is_tree(rk: &RawKey, bytes: &[u8]) -> Option<bool> {
    parse_pack_trailer(rk, bytes).ok().and_then(|(e, _)| e.first().map(|x| x.tpe == 1))
}

/// the hot/cold invariant for one id; returns a description of the breach
fn invariant_for(rk: &RawKey, stores: &[StoreState], tpe: FileType, id: &Id, pack_types: &mut BTreeMap<Id, bool>) -> Option<String> {
    let cold = stores[COLD].get(tpe, id);
    let hot = stores[HOT].get(tpe, id);
    match tpe {
        FileType::Config => None,
        FileType::Key | FileType::Snapshot | FileType::Index => match (cold, hot) {
            (Some(c), Some(h)) if c != h => Some(format!("{} {id}: hot and cold copies differ", ft_name(tpe))),
            (Some(_), None) => Some(format!("{} {id} is listed by the cold store but missing in the hot store", ft_name(tpe))),
            _ => None,
        },
        FileType::Pack => {
            let is_tree = match cold.or(hot) {
                Some(b) => match pack_is_tree(rk, b) {
                    Some(t) => {
                        let _ = pack_types.insert(*id, t);
                        Some(t)
                    }
                    None => pack_types.get(id).copied(),
                },
                None => pack_types.get(id).copied(),
            };
            match (is_tree, cold, hot) {
                (Some(false), _, Some(_)) => Some(format!("data pack {id} was placed in the hot store")),
                (Some(true), Some(c), Some(h)) if c != h => Some(format!("tree pack {id}: hot and cold copies differ")),
                (Some(true), Some(_), None) => Some(format!("tree pack {id} is listed by the cold store but missing in the hot store")),
                _ => None,
            }
        }
    }
}

pub fn full_invariant(rk: &RawKey, stores: &[StoreState]) -> Vec<String> {
    let mut pt = BTreeMap::new();
    let mut out = Vec::new();
    for (k, _) in stores[COLD].files.iter().chain(stores[HOT].files.iter()) {
        let tpe = crate::store::ft_from(k.0);
        if let Some(x) = invariant_for(rk, stores, tpe, &k.1, &mut pt) {
            if !out.contains(&x) {
                out.push(x);
            }
        }
    }
    out
}

struct Hist {
    cfg: GenCfg,
    key: MasterKey,
    uni: Universe,
    env: Env,
    single: Env,
    tp: TreeParams,
    model: ModelTree,
    hits: Arc<Mutex<Vec<(String, String)>>>,
}

fn setup(r: &mut Rng, cold_rejects: bool) -> Result<Hist, String> {
    let mut cfg = gen_config(r);
    while cfg.heavy_compression || cfg.max < 64 {
        cfg = gen_config(r);
    }
    cfg.opts = cfg.opts.set_datapack_size(ByteSize(*r.pick(&[1u64, 800, 5000]))).set_treepack_size(ByteSize(*r.pick(&[1u64, 500, 4000])));
    let cap = (cfg.avg * 8).clamp(600, 12_000);
    let mut tp = TreeParams::small(cfg.sizes(r, cap));
    tp.max_entries = 7;
    tp.max_depth = 3;
    tp.name_classes = vec![NameClass::Ascii, NameClass::Escapes];
    let model = gen_tree(r, &tp);
    let uni = Universe::new(2);
    let key = MasterKey::new();
    let env = Env::hotcold(uni.clone(), key.clone());
    let mut r1 = r.fork(1);
    env.init(&cfg, &mut r1)?;
    let suni = Universe::new(1);
    suni.lock().recording = false;
    let single = Env::single(suni, MasterKey::new());
    let mut r2 = r.fork(1);
    single.init(&cfg, &mut r2)?;
    uni.set_cold(COLD, cold_rejects);
    // online monitor under the universe lock: checked after EVERY storage event
    let hits: Arc<Mutex<Vec<(String, String)>>> = Arc::new(Mutex::new(Vec::new()));
    {
        let hits = hits.clone();
        let rk = RawKey::from_master(&key);
        let mut pack_types: BTreeMap<Id, bool> = BTreeMap::new();
        uni.add_monitor(Box::new(move |ev: &Event, stores: &[StoreState]| {
            let mut v: Option<(String, String)> = None;
            if ev.op.mutating() {
                if let Some(x) = invariant_for(&rk, stores, ev.tpe, &ev.id, &mut pack_types) {
                    let sig = if x.contains("data pack") { "data-pack-in-hot" } else if x.contains("differ") { "hot-cold-differ" } else { "cold-without-hot" };
                    v = Some((format!("invariant:{sig}:{}", ft_name(ev.tpe)), format!("after {}: {x}", ev_desc(ev))));
                }
            }
            if ev.cold_rejected {
                v = Some((format!("cold-read-without-warmup:{}", ft_name(ev.tpe)), format!("{} of {} {} was issued to the cold store before it was warmed up", ev.op.name(), ft_name(ev.tpe), ev.id)));
            }
            if let Some(x) = &v {
                hits.lock().unwrap().push(x.clone());
            }
            v.map(|x| x.1)
        }));
    }
    Ok(Hist { cfg, key, uni, env, single, tp, model, hits })
}

fn snapshot_map(env: &Env, r: &mut Rng) -> Result<BTreeMap<(i64, String), Result<Observed, String>>, String> {
    // key by (time, tree is content-derived but chunker polynomials differ) -> use time only plus ordinal
    let m = read_each_snapshot(env, r)?;
    let mut v: Vec<_> = m.into_values().collect();
    v.sort_by(|a, b| a.0.time.cmp(&b.0.time).then(a.0.id.cmp(&b.0.id)));
    let mut out = BTreeMap::new();
    let mut seen: BTreeMap<(i64, String), usize> = BTreeMap::new();
    for (s, o) in v {
        let t = s.time.timestamp().as_second();
        let label = format!("{}:{}", s.hostname, s.tags.iter().cloned().collect::<Vec<_>>().join(","));
        let ord = seen.entry((t, label.clone())).or_default();
        let _ = out.insert((t, format!("{label}#{ord}")), o);
        *ord += 1;
    }
    Ok(out)
}

fn gen_cmd(r: &mut Rng, h: &mut Hist, t: i64, step: u64) -> Cmd {
    match if step < 2 { 0 } else { r.below(10) } {
        0..=3 => {
            for _ in 0..r.range(0, 3) {
                let k = r.pick(&ALL_EDITS).clone();
                let _ = apply_edit(r, &mut h.model, &k, &h.tp);
            }
            Cmd::Backup { model: h.model.clone(), force: r.chance(1, 2), time: t, dry_run: false }
        }
        4 => Cmd::Forget { positions: vec![r.usize_below(3)] },
        5 | 6 => {
            let mut s = PruneSpec::generate(r, h.cfg.version == 2);
            if r.chance(1, 2) {
                s.max_unused = Limit::Pct(0);
            }
            // on hot/cold the default for repack_cacheable_only differs by design; pin it so that both
            // repositories are asked for the same thing
            if s.repack_cacheable_only.is_none() {
                s.repack_cacheable_only = Some(r.chance(1, 2));
            }
            Cmd::Prune { spec: s }
        }
        7 => Cmd::Merge { positions: vec![0, 1], delete: r.chance(1, 2) },
        8 => Cmd::ApplyConfig { opts: rustic_core::ConfigOptions::default().set_treepack_size(ByteSize(r.range(300, 50_000))) },
        _ => Cmd::Rewrite { exclude: vec![], forget: r.chance(1, 2), dry_run: false },
    }
}

fn history(_ctx: &Ctx, case: u64, r: &mut Rng, rep: &mut Report) {
    let cold_rejects = r.chance(1, 2);
    let mut h = match setup(r, cold_rejects) {
        Ok(h) => h,
        Err(e) => {
            rep.inconclusive(format!("setup: {e}"));
            return;
        }
    };
    let rk = RawKey::from_master(&h.key);
    let n = r.range(3, 8);
    let mut program = Vec::new();
    for step in 0..n {
        let cmd = gen_cmd(r, &mut h, 1_700_000_000 + step as i64 * 777, step);
        program.push(cmd.name());
        let detail = json!({"config": h.cfg.desc, "program": program, "cold_rejects_unwarmed_reads": cold_rejects});
        h.uni.clear_log();
        let before_hits = h.hits.lock().unwrap().len();
        let res_hc = cmd.run(&h.env);
        let res_single = cmd.run(&h.single);
        rep.evaluations += 1;
        let log = h.uni.take_log();
        rep.count("storage_events_checked_online", log.len() as u64);
        rep.count("mutating_events_checked_online", log.iter().filter(|e| e.op.mutating()).count() as u64);
        rep.count("warm_up_calls_seen", log.iter().filter(|e| e.op == Op::WarmUp).count() as u64);
        rep.count("cold_pack_reads_seen", log.iter().filter(|e| e.store == COLD && e.tpe == FileType::Pack && matches!(e.op, Op::ReadFull | Op::ReadPartial)).count() as u64);
        let new_hits: Vec<(String, String)> = h.hits.lock().unwrap()[before_hits..].to_vec();
        let mut seen = std::collections::BTreeSet::new();
        for (sig, d) in new_hits {
            if seen.insert(sig.clone()) {
                rep.violation(case, format!("{sig}:{}", cmd.kind()), format!("step {step} `{}`: {d}", cmd.name()), detail.clone());
            }
        }
        match (&res_hc, &res_single) {
            (Err(p), _) => rep.violation(case, format!("panic:{}", panic_sig(p)), format!("step {step} `{}` panicked on the hot/cold repository: {p}", cmd.name()), detail.clone()),
            (Ok(a), Ok(b)) if a.is_ok() != b.is_ok() => rep.violation(
                case,
                format!("differs-from-single-store:result:{}", cmd.kind()),
                format!("step {step} `{}`: hot/cold returned {a:?}, single-store {b:?}", cmd.name()),
                detail.clone(),
            ),
            _ => {}
        }
        if matches!(cmd, Cmd::Prune { .. }) || step + 1 == n {
            rep.class(format!("{}{}", cmd.kind(), if cold_rejects { "/cold-rejecting" } else { "" }));
        } else {
            rep.class(format!("{}{}", cmd.kind(), if cold_rejects { "/cold-rejecting" } else { "" }));
        }
        // whole-state invariant at the quiescent point
        let st = h.uni.snapshot();
        if let Some(x) = full_invariant(&rk, &st).into_iter().next() {
            rep.violation(case, format!("invariant-quiescent:{}", cmd.kind()), format!("after step {step} `{}`: {x}", cmd.name()), detail.clone());
        }
        // equivalence with the single-store twin: snapshots and their content, check without read-data
        if step + 1 == n || r.chance(1, 3) {
            // reads happen on a warm copy of the hot/cold state so that reading itself is not what is tested here
            let copy = Universe::from_states(st.clone());
            copy.lock().recording = false;
            let env_copy = Env::hotcold(copy, h.key.clone());
            match (snapshot_map(&env_copy, r), snapshot_map(&h.single, r)) {
                (Ok(a), Ok(b)) => {
                    if a.keys().collect::<Vec<_>>() != b.keys().collect::<Vec<_>>() {
                        rep.violation(case, "differs-from-single-store:snapshot-set", format!("after step {step}: hot/cold lists {} snapshots, single-store {}", a.len(), b.len()), detail.clone());
                    } else {
                        for (k, oa) in &a {
                            match (oa, &b[k]) {
                                (Ok(x), Ok(y)) => {
                                    if let Some(d) = diff_obs(y, x, CmpOpts::ALL).first() {
                                        rep.violation(case, "differs-from-single-store:content", format!("after step {step}: snapshot at t={} reads differently: {d}", k.0), detail.clone());
                                    }
                                }
                                (Err(e), Ok(_)) => rep.violation(case, "differs-from-single-store:unreadable", format!("after step {step}: snapshot at t={} is unreadable on hot/cold only: {e}", k.0), detail.clone()),
                                _ => {}
                            }
                        }
                    }
                }
                (Err(e), Ok(_)) => rep.violation(case, "differs-from-single-store:open", format!("after step {step}: hot/cold repository cannot be read: {e}"), detail.clone()),
                _ => {}
            }
            let chk = |env: &Env| -> Result<Vec<String>, String> { env.open().and_then(|repo| crate::repo::check_meta(&repo).map_err(|e| errstr(&e))) };
            if let (Ok(a), Ok(b)) = (chk(&env_copy), chk(&h.single)) {
                if a.is_empty() != b.is_empty() {
                    rep.violation(case, "differs-from-single-store:check", format!("after step {step}: check (no read-data) hot/cold errors {a:?} vs single-store {b:?}"), detail.clone());
                }
            }
        }
    }
    // restore (into an empty and then into a partly filled destination) and read-all repair through the possibly
    // rejecting cold store: must warm up first
    {
        let detail = json!({"config": h.cfg.desc, "program": program, "cold_rejects_unwarmed_reads": cold_rejects});
        let before_hits = h.hits.lock().unwrap().len();
        // forget warmed state so that every command has to warm up itself
        h.uni.lock().stores[COLD].warm.clear();
        h.uni.clear_log();
        let work = _ctx.case_dir(case);
        let res = catch(|| -> Result<(), String> {
            let repo = h.env.full()?;
            let snaps = repo.get_all_snapshots().map_err(|e| errstr(&e))?;
            if let Some(s) = snaps.last() {
                restore_to(&repo, s, &work.join("dest"), &RestoreOptions::default())?;
                // again, into a destination that now holds part of the content: about half of the files are removed, so
                // packs are needed for some of their blobs only - each of those packs still has to be warmed up
                let mut files = Vec::new();
                let mut stack = vec![work.join("dest")];
                while let Some(d) = stack.pop() {
                    for e in std::fs::read_dir(&d).into_iter().flatten().flatten() {
                        match e.file_type() {
                            Ok(t) if t.is_dir() => stack.push(e.path()),
                            Ok(t) if t.is_file() => files.push(e.path()),
                            _ => {}
                        }
                    }
                }
                files.sort();
                let mut rr = Rng::new(case ^ 0x16);
                let mut removed = 0;
                for f in &files {
                    if rr.chance(1, 2) {
                        if std::fs::remove_file(f).is_ok() {
                            removed += 1;
                        }
                    } else {
                        // kept, but with another mtime: restore then verifies the content blob by blob and reads nothing
                        // from the repository for it
                        let _ = filetime::set_file_mtime(f, filetime::FileTime::from_unix_time(1_500_000_000, 0));
                    }
                }
                if removed > 0 {
                    h.uni.lock().stores[COLD].warm.clear();
                    restore_to(&repo, s, &work.join("dest"), &RestoreOptions::default()).map_err(|e| format!("second restore into a partly filled destination: {e}"))?;
                }
            }
            Ok(())
        });
        let _ = std::fs::remove_dir_all(&work);
        rep.evaluations += 1;
        if let Ok(Err(e)) = &res {
            rep.violation(case, "restore-failed", format!("restore from the hot/cold repository failed: {e}"), detail.clone());
        }
        h.uni.lock().stores[COLD].warm.clear();
        // half of the time some index files are gone (from both stores): the packs they listed are unindexed then, and
        // their headers have to be read from the cold store - after a warm-up like any other read
        let read_all = if r.chance(1, 2) {
            let mut g = h.uni.lock();
            let ids: Vec<Id> = g.stores[COLD].ids(FileType::Index);
            let mut n = 0u64;
            for (i, id) in ids.iter().enumerate() {
                if i == 0 || r.chance(1, 2) {
                    let _ = g.stores[COLD].del(FileType::Index, id);
                    let _ = g.stores[HOT].del(FileType::Index, id);
                    n += 1;
                }
            }
            drop(g);
            rep.count("index_files_removed_before_repair_index", n);
            r.chance(1, 2)
        } else {
            true
        };
        let ri = Cmd::RepairIndex { read_all, dry_run: false }.run(&h.env);
        rep.evaluations += 1;
        if let Ok(Err(e)) = &ri {
            rep.violation(case, "repair-index-failed", format!("repair_index(read_all) on the hot/cold repository failed: {e}"), detail.clone());
        }
        let log = h.uni.take_log();
        // ordering check on the log: every cold pack read is preceded by a warm-up of that pack (when the store is cold)
        if cold_rejects {
            let mut warmed = std::collections::BTreeSet::new();
            for e in &log {
                if e.op == Op::WarmUp {
                    let _ = warmed.insert((crate::store::ft_idx(e.tpe), e.id));
                }
                if e.store == COLD && matches!(e.op, Op::ReadFull | Op::ReadPartial) && !warmed.contains(&(crate::store::ft_idx(e.tpe), e.id)) {
                    rep.violation(case, format!("log:cold-read-before-warmup:{}", ft_name(e.tpe)), format!("{} precedes any warm-up of that file", ev_desc(e)), detail.clone());
                    break;
                }
            }
            rep.count("warm_up_calls_seen", log.iter().filter(|e| e.op == Op::WarmUp).count() as u64);
        }
        let new_hits: Vec<(String, String)> = h.hits.lock().unwrap()[before_hits..].to_vec();
        for (sig, d) in new_hits.into_iter().take(2) {
            rep.violation(case, format!("{sig}:restore-or-repair-index"), d, detail.clone());
        }
    }
    // check --read-data: same verdict as on the single-store twin?
    if !cold_rejects {
        rep.evaluations += 1;
        let chk = |env: &Env| -> Result<Vec<String>, String> { env.open().and_then(|repo| crate::repo::check_full(&repo).map_err(|e| errstr(&e))) };
        if let (Ok(Ok(a)), Ok(Ok(b))) = (catch(|| chk(&h.env)), catch(|| chk(&h.single))) {
            if !a.is_empty() && b.is_empty() {
                let only_pack_reads = a.iter().all(|e| e.contains("error reading pack"));
                rep.violation(
                    case,
                    if only_pack_reads { "C16/check-read-data" } else { "differs-from-single-store:check-read-data" },
                    format!("check(read_data) is clean on the single-store twin but reports {} error(s) on the hot/cold repository, e.g. {}", a.len(), a[0].chars().take(160).collect::<String>()),
                    json!({"config": h.cfg.desc, "program": program}),
                );
            }
        }
    }
    if case % 11 == 0 {
        rep.sample(json!({"kind": "history", "config": h.cfg.desc, "program": program, "cold_rejects_unwarmed_reads": cold_rejects}));
    }
}

/// hot store damaged -> open_only_cold + init_hot + repair => invariant restored
fn repair_case(_ctx: &Ctx, case: u64, r: &mut Rng, rep: &mut Report) {
    let mut h = match setup(r, false) {
        Ok(h) => h,
        Err(e) => {
            rep.inconclusive(format!("setup: {e}"));
            return;
        }
    };
    h.uni.clear_monitors();
    for step in 0..3 {
        let c = gen_cmd(r, &mut h, 1_700_000_000 + step * 500, 0);
        let _ = c.run(&h.env);
    }
    // two cases in three: a snapshot was forgotten and a prune has marked (not yet removed) packs, tree packs among
    // them - the cold store still lists those, so the hot store has to hold them too
    if r.chance(2, 3) {
        let _ = Cmd::Forget { positions: vec![0] }.run(&h.env);
        let mut s = PruneSpec::default_safe();
        s.max_unused = Limit::Pct(0);
        s.repack_cacheable_only = Some(false);
        s.repack_all = r.chance(1, 2);
        let _ = Cmd::Prune { spec: s }.run(&h.env);
        let marked = crate::rawrepo::index_view(&RawKey::from_master(&h.key), &h.uni.state(COLD)).map(|v| v.marked.len()).unwrap_or(0);
        rep.count("repair_cases_marked_packs_present", marked as u64);
    }
    let rk = RawKey::from_master(&h.key);
    let before = match read_each_snapshot(&h.env, r) {
        Ok(b) => b,
        Err(e) => {
            rep.inconclusive(format!("base unreadable: {e}"));
            return;
        }
    };
    // remove a subset of hot files
    let class = r.below(6);
    let mut removed = Vec::new();
    {
        let mut g = h.uni.lock();
        let keys: Vec<_> = g.stores[HOT].files.keys().copied().collect();
        for k in keys {
            let t = crate::store::ft_from(k.0);
            let hit = match class {
                0 => t == FileType::Config,
                1 => t == FileType::Index,
                2 => t == FileType::Snapshot,
                3 => t == FileType::Pack,
                4 => true,
                _ => r.chance(1, 2),
            };
            if hit {
                let _ = g.stores[HOT].files.remove(&k);
                removed.push(format!("{}:{}", ft_name(t), &k.1.to_hex()[..8]));
            }
        }
    }
    let detail = json!({"config": h.cfg.desc, "removed_class": class, "removed_hot_files": removed.len()});
    rep.evaluations += 1;
    let res = catch(|| -> Result<(), String> {
        let (be, hot) = h.env.backends();
        let repo = crate::repo::new_repo_opts(be, hot, &h.env.ropts).and_then(|r| r.open_only_cold(&crate::repo::creds(&h.key))).map_err(|e| format!("open_only_cold: {}", errstr(&e)))?;
        repo.init_hot().map_err(|e| format!("init_hot: {}", errstr(&e)))?;
        repo.repair_hotcold_except_packs(false).map_err(|e| format!("repair_hotcold_except_packs: {}", errstr(&e)))?;
        repo.repair_hotcold_packs(false).map_err(|e| format!("repair_hotcold_packs: {}", errstr(&e)))?;
        Ok(())
    });
    match res {
        Err(p) => rep.violation(case, format!("panic:{}", panic_sig(&p)), format!("hot/cold repair panicked: {p}"), detail.clone()),
        Ok(Err(e)) => rep.violation(case, "repair:failed", format!("hot/cold repair failed: {e}"), detail.clone()),
        Ok(Ok(())) => {
            let st = h.uni.snapshot();
            if let Some(x) = full_invariant(&rk, &st).into_iter().next() {
                rep.violation(case, "repair:invariant-not-restored", x, detail.clone());
            }
            match read_each_snapshot(&h.env, r) {
                Err(e) => rep.violation(case, "repair:cannot-open", format!("normal open fails after repair: {e}"), detail.clone()),
                Ok(after) => {
                    for (id, (_, o)) in &before {
                        match (o, after.get(id).map(|x| &x.1)) {
                            (Ok(a), Some(Ok(b))) => {
                                if let Some(d) = diff_obs(a, b, CmpOpts::ALL).first() {
                                    rep.violation(case, "repair:content-changed", format!("snapshot {id}: {d}"), detail.clone());
                                }
                            }
                            (Ok(_), other) => rep.violation(case, "repair:snapshot-lost", format!("snapshot {id} readable before damage, after repair: {:?}", other.map(|x| x.as_ref().err())), detail.clone()),
                            _ => {}
                        }
                    }
                }
            }
        }
    }
    rep.class(format!("repair/hot-class{class}"));
    // dry-run repair writes nothing
    {
        let mut g = h.uni.lock();
        let keys: Vec<_> = g.stores[HOT].files.keys().copied().filter(|k| k.0 != crate::store::ft_idx(FileType::Config)).collect();
        if let Some(k) = keys.first() {
            let _ = g.stores[HOT].files.remove(k);
        }
    }
    h.uni.clear_log();
    rep.evaluations += 1;
    let _ = catch(|| -> Result<(), String> {
        let repo = h.env.open()?;
        repo.repair_hotcold_except_packs(true).map_err(|e| errstr(&e))?;
        repo.repair_hotcold_packs(true).map_err(|e| errstr(&e))
    });
    let log = h.uni.take_log();
    if let Some(e) = log.iter().find(|e| e.op.mutating()) {
        rep.violation(case, "repair:dry-run-wrote", format!("dry-run hot/cold repair issued {}", ev_desc(e)), detail);
    }
}

pub fn run(ctx: &Ctx) -> (Report, Meta) {
    let n_hist = ctx.tier.pick(40u64, 1500);
    let n_rep = ctx.tier.pick(12u64, 400);
    let mut rep = run_cases(ctx, n_hist, &history);
    let mut c2 = ctx.clone();
    c2.seed ^= 0xc16;
    rep.merge({ let mut cb = c2.clone(); cb.case_base = 1_000_000; run_cases(&cb, n_rep, &|c, i, r, rep| repair_case(c, i + 1_000_000, r, rep)) });
    let meta = Meta {
        level: "exploration",
        rule: "case = history of 3-8 commands (backup of an evolving tree, forget, prune with generated options, merge, rewrite, config change) on a hot+cold pair of stores in one storage universe, half of them with a cold store that REJECTS reads of files that were not warmed up; an online monitor checks after EVERY storage event (i.e. at every prefix of the combined operation sequence) that each key/snapshot/index/tree-pack listed by cold is in hot with identical bytes and that no data pack is in hot (pack type from an independent trailer parse); the same history runs on a single-store twin and snapshot sets, contents, command results and check (without read-data) are compared; then restore and repair_index(read_all) must complete with zero rejected cold reads and every cold pack read must follow its warm-up in the log. Repair cases: a class of hot files is removed, open_only_cold+init_hot+repair must restore the invariant and all reads. distinct_nontrivial = distinct (command kind, cold mode) / repair class".to_string(),
        exhaustive: false,
        assumptions: vec![
            "prune internals are not compared with the single-store twin (repack_cacheable_only is pinned to the same value on both)".to_string(),
            "check --read-data is excluded from the equivalence: on hot/cold it cannot read data packs and the repository's own test-suite asserts that failure (known finding C16/check-read-data, listed in DESIGN.md)".to_string(),
        ],
    };
    (rep, meta)
}
