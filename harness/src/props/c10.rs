//! C10 Backups running concurrently with prune or each other stay intact

use std::{
    collections::BTreeMap,
    sync::atomic::{AtomicBool, Ordering},
    time::Duration,
};

use rustic_core::{BackupOptions, FileType, Id, ParentOptions};
use serde_json::json;

use crate::{
    cmds::{Cmd, Env, Limit, PruneSpec, read_each_snapshot},
    evidence::{Ctx, Meta, Report, Tier, catch, panic_sig, run_cases},
    model::{ALL_EDITS, Frag, ModelTree, apply_edit},
    observe::{CmpOpts, diff_model},
    props::c02::setup,
    rawrepo::{RawKey, check_conservation},
    repo::{backup_model, check_full, errstr, snap_at},
    rng::Rng,
    store::{StoreState, Universe},
};

#[derive(Clone)]
pub enum Op {
    Backup { model: ModelTree, time: i64, host: &'static str },
    Prune { spec: PruneSpec },
}

impl Op {
    fn name(&self) -> String {
        match self {
            Op::Backup { host, .. } => format!("backup[{host}]"),
            Op::Prune { spec } => Cmd::Prune { spec: spec.clone() }.name(),
        }
    }
    /// run; for backups returns the new snapshot id
    fn run(&self, env: &Env) -> Result<Result<Option<Id>, String>, String> {
        catch(|| match self {
            Op::Backup { model, time, host } => {
                let repo = env.ids()?;
                let s = backup_model(&repo, model, Frag::Whole, &BackupOptions::default().parent_opts(ParentOptions::default().force(true)), snap_at(*time, host)).map_err(|e| format!("backup: {}", errstr(&e)))?;
                Ok(Some(*s.id))
            }
            Op::Prune { spec } => Cmd::Prune { spec: spec.clone() }.run_plain(env).map(|()| None),
        })
    }
}

pub struct Interleaving {
    pub parked: bool,
    pub res_a: Result<Result<Option<Id>, String>, String>,
    pub res_b: Option<Result<Result<Option<Id>, String>, String>>,
    pub state: Vec<StoreState>,
    pub timed_out: bool,
    /// the second command stalled behind the parked one (shared thread pool); the gate was opened and both ran concurrently
    pub released_early: bool,
}

/// run A up to its k-th backend operation, then B completely, then the rest of A
pub fn interleave(base: &[StoreState], key: &rustic_core::repofile::MasterKey, a: &Op, b: &Op, k: u64) -> Interleaving {
    let uni = Universe::from_states(base.to_vec());
    uni.lock().recording = false;
    let env_a = Env::single(uni.clone(), key.clone()).with_party(1);
    let env_b = Env::single(uni.clone(), key.clone()).with_party(2);
    uni.arm_gate(1, k);
    let done = AtomicBool::new(false);
    let mut res_b = None;
    let mut parked = false;
    let mut timed_out = false;
    let mut released_early = false;
    let b_done = AtomicBool::new(false);
    let fl = crate::evidence::current_flush();
    let res_a = std::thread::scope(|s| {
        let h = s.spawn(|| {
            crate::evidence::set_flush(fl);
            let r = a.run(&env_a);
            done.store(true, Ordering::SeqCst);
            uni.0.cv.notify_all();
            r
        });
        parked = uni.wait_parked(&|| done.load(Ordering::SeqCst), Duration::from_secs(60));
        if parked {
            // B runs in a thread of its own so that the harness can break an in-process cycle: both commands share
            // rayon's process-global pool, and a pool thread working for B may steal (and then be parked inside) a
            // job of A while it waits. Two processes cannot do that to each other. When B makes no progress the gate
            // is opened; A and B then simply run concurrently - still a legal schedule for the property.
            let hb = s.spawn(|| {
                crate::evidence::set_flush(fl);
                let r = b.run(&env_b);
                b_done.store(true, Ordering::SeqCst);
                r
            });
            let start = std::time::Instant::now();
            let mut last = (uni.all_ops(), std::time::Instant::now());
            while !b_done.load(Ordering::SeqCst) {
                std::thread::sleep(Duration::from_millis(2));
                let n = uni.all_ops();
                if n != last.0 {
                    last = (n, std::time::Instant::now());
                }
                if last.1.elapsed() > Duration::from_millis(1500) || start.elapsed() > Duration::from_secs(120) {
                    released_early = true;
                    break;
                }
            }
            uni.release_gate();
            res_b = Some(hb.join().unwrap_or_else(|_| Err("thread panicked".to_string())));
        } else if !done.load(Ordering::SeqCst) {
            timed_out = true;
        }
        uni.release_gate();
        h.join().unwrap_or_else(|_| Err("thread panicked".to_string()))
    });
    uni.disarm_gate();
    if !parked && !timed_out {
        // A finished before reaching operation k: B simply runs afterwards
        res_b = Some(b.run(&env_b));
    }
    Interleaving { parked, res_a, res_b, state: uni.snapshot(), timed_out, released_early }
}

/// number of backend operations A issues when run alone
fn count_ops(base: &[StoreState], key: &rustic_core::repofile::MasterKey, a: &Op) -> u64 {
    let uni = Universe::from_states(base.to_vec());
    let env = Env::single(uni.clone(), key.clone()).with_party(1);
    uni.arm_gate(1, u64::MAX);
    let _ = a.run(&env);
    let n = uni.party_ops();
    uni.disarm_gate();
    n
}

struct Scen {
    key: rustic_core::repofile::MasterKey,
    base: Vec<StoreState>,
    /// snapshot id -> model for the snapshots present in base
    models: BTreeMap<Id, ModelTree>,
    reuse_model: ModelTree,
    new_model: ModelTree,
    desc: String,
    /// the same repository before the first snapshot was forgotten: a prune finds nothing to do there
    base_full: Vec<StoreState>,
    models_full: BTreeMap<Id, ModelTree>,
}

fn build(r: &mut Rng) -> Result<Scen, String> {
    let mut h = setup(r)?;
    let first = h.backup(true)?;
    let reuse_model = h.model.clone();
    for _ in 0..2 {
        for _ in 0..r.range(1, 3) {
            let k = r.pick(&ALL_EDITS).clone();
            let _ = apply_edit(r, &mut h.model, &k, &h.tp);
        }
        let _ = h.backup(r.chance(1, 2))?;
    }
    // the same repository with nothing forgotten and its index consolidated into one file by a prune: the next prune
    // finds nothing at all to do
    let (base_full, models_full) = {
        let u = Universe::from_states(h.uni.snapshot());
        u.lock().recording = false;
        let e = Env::single(u.clone(), h.key.clone());
        let mut s = PruneSpec::default_safe();
        s.no_resize = true;
        s.max_unused = Limit::Unlimited;
        let _ = Cmd::Prune { spec: s }.run(&e);
        (u.snapshot(), h.snaps.clone())
    };
    // forget the first snapshot: its packs become prunable; a concurrent backup of the same content reuses them
    let repo = h.env.open()?;
    repo.delete_snapshots(&[first.into()]).map_err(|e| errstr(&e))?;
    let _ = h.snaps.remove(&first);
    let mut new_model = h.model.clone();
    for _ in 0..r.range(1, 3) {
        let k = r.pick(&ALL_EDITS).clone();
        let _ = apply_edit(r, &mut new_model, &k, &h.tp);
    }
    Ok(Scen { key: h.key.clone(), base: h.uni.snapshot(), models: h.snaps.clone(), reuse_model, new_model, desc: h.cfg.desc.clone(), base_full, models_full })
}

fn judge(sc: &Scen, st: &[StoreState], extra: &BTreeMap<Id, ModelTree>, r: &mut Rng, follow_up_prune: bool) -> Vec<(String, String)> {
    let uni = Universe::from_states(st.to_vec());
    uni.lock().recording = false;
    let env = Env::single(uni.clone(), sc.key.clone());
    let mut out = Vec::new();
    if follow_up_prune {
        match (Cmd::Prune { spec: PruneSpec::default_safe() }).run(&env) {
            Ok(Ok(())) => {}
            other => out.push(("follow-up-prune-failed".to_string(), format!("{other:?}"))),
        }
    }
    match catch(|| env.open().and_then(|repo| check_full(&repo).map_err(|e| errstr(&e)))) {
        Ok(Ok(errs)) => {
            if let Some(e) = errs.first() {
                out.push(("check-reports".to_string(), format!("check(read_data): {e}")));
            }
        }
        other => out.push(("check-failed".to_string(), format!("{other:?}"))),
    }
    match read_each_snapshot(&env, r) {
        Err(e) => out.push(("repository-unreadable".to_string(), e)),
        Ok(m) => {
            for (id, (_, o)) in &m {
                let Some(model) = sc.models.get(id).or_else(|| extra.get(id)) else { continue };
                match o {
                    Err(e) => out.push(("snapshot-lost".to_string(), format!("snapshot {id} cannot be read: {e}"))),
                    Ok(obs) => {
                        if let Some(d) = diff_model(model, obs, CmpOpts::ALL).first() {
                            out.push(("snapshot-content".to_string(), format!("snapshot {id}: {d}")));
                        }
                    }
                }
            }
            for id in extra.keys() {
                if !m.contains_key(id) {
                    out.push(("snapshot-missing".to_string(), format!("snapshot {id} written by a concurrent backup is not listed")));
                }
            }
        }
    }
    for p in check_conservation(&RawKey::from_master(&sc.key), &uni.state(0)).into_iter().take(1) {
        out.push(("raw-conservation".to_string(), p));
    }
    out
}

fn one_case(ctx: &Ctx, case: u64, r: &mut Rng, rep: &mut Report) {
    let sc = match build(r) {
        Ok(s) => s,
        Err(e) => {
            rep.inconclusive(format!("scenario: {e}"));
            return;
        }
    };
    let mut spec = PruneSpec::default_safe(); // non-instant, keep-delete 1 h
    spec.max_unused = Limit::Pct(0);
    if r.chance(1, 3) {
        spec.repack_all = true;
    }
    if r.chance(1, 3) {
        spec.fast_repack = true;
    }
    let b_reuse = Op::Backup { model: sc.reuse_model.clone(), time: 1_700_500_000, host: "A" };
    let b_new = Op::Backup { model: sc.new_model.clone(), time: 1_700_500_100, host: "B" };
    let prune = Op::Prune { spec: spec.clone() };
    let pairings: Vec<(&str, Op, Op)> = vec![
        ("backup||prune", b_reuse.clone(), prune.clone()),
        ("prune||backup", prune.clone(), b_reuse.clone()),
        ("backup||backup", b_reuse.clone(), b_new.clone()),
        ("backup(new)||prune", b_new.clone(), prune.clone()),
    ];
    let mut sc = sc;
    let (pname, a, b) = if case % 5 == 4 {
        // nothing was forgotten: the prune has nothing to do but sees the packs the backup has uploaded so far
        sc.base = sc.base_full.clone();
        sc.models = sc.models_full.clone();
        let mut idle = PruneSpec::default_safe();
        idle.no_resize = true;
        idle.max_unused = Limit::Unlimited;
        ("backup(new)||prune(nothing to do)", b_new.clone(), Op::Prune { spec: idle })
    } else {
        pairings[(case % 5) as usize].clone()
    };
    let n_a = count_ops(&sc.base, &sc.key, &a);
    rep.max("max_ops_of_first_command", n_a);
    let ks: Vec<u64> = if ctx.tier == Tier::Thorough || n_a <= 12 {
        (0..=n_a).collect()
    } else {
        let mut v: Vec<u64> = vec![0, 1, 2, n_a / 2, n_a - 1, n_a];
        for _ in 0..8 {
            v.push(r.below(n_a + 1));
        }
        v.sort_unstable();
        v.dedup();
        v
    };
    let mut outcomes = std::collections::BTreeSet::new();
    for k in ks {
        let il = interleave(&sc.base, &sc.key, &a, &b, k);
        rep.evaluations += 1;
        let detail = json!({"config": sc.desc, "pairing": pname, "first": a.name(), "second": b.name(), "k": k, "ops_of_first": n_a});
        if il.timed_out {
            rep.inconclusive(format!("{pname} k={k}: first command neither parked nor finished within the watchdog"));
            continue;
        }
        if il.parked {
            rep.count("interleavings_with_real_overlap", 1);
        }
        if il.released_early {
            rep.count("interleavings_where_gate_was_opened_early", 1);
        }
        let mut extra = BTreeMap::new();
        for (res, op) in [(Some(&il.res_a), &a), (il.res_b.as_ref(), &b)] {
            match res {
                Some(Err(p)) => rep.violation(case, format!("panic:{}", panic_sig(p)), format!("{pname} k={k}: `{}` panicked: {p}", op.name()), detail.clone()),
                Some(Ok(Err(e))) => {
                    // a command may refuse to run when it sees an inconsistent intermediate state; that is not data loss
                    rep.set_add("commands_failing_under_overlap", format!("{}: {}", op.name().split('(').next().unwrap_or(""), e.chars().take(90).collect::<String>()));
                }
                Some(Ok(Ok(Some(id)))) => {
                    if let Op::Backup { model, .. } = op {
                        let _ = extra.insert(*id, model.clone());
                    }
                }
                _ => {}
            }
        }
        let follow_up = pname != "backup||backup";
        let probs = judge(&sc, &il.state, &extra, r, follow_up);
        // outcome signature for evidence: how many packs marked / total
        let marked = crate::rawrepo::index_view(&RawKey::from_master(&sc.key), &il.state[0]).map(|v| v.marked.len()).unwrap_or(0);
        let _ = outcomes.insert(format!("marked={marked},packs={}", il.state[0].count(FileType::Pack)));
        if let Some((sig, d)) = probs.into_iter().next() {
            rep.violation(case, format!("{sig}:{pname}"), format!("{pname}, first command parked at its backend operation {k} of {n_a}: {d}"), detail);
        }
        if il.parked {
            rep.class(format!("{pname}/k{}", if k == 0 { "0".to_string() } else if k * 3 < n_a { "early".to_string() } else if k * 3 < 2 * n_a { "mid".to_string() } else { "late".to_string() }));
        }
    }
    rep.count("distinct_outcomes", outcomes.len() as u64);
    if case % 5 == 0 {
        rep.sample(json!({"config": sc.desc, "pairing": pname, "ops_of_first": n_a, "distinct_outcomes": outcomes.into_iter().collect::<Vec<_>>()}));
    }
}

pub fn run(ctx: &Ctx) -> (Report, Meta) {
    let n = ctx.tier.pick(24u64, 400);
    // few cases at a time: a parked command keeps pool threads of the (shared, process-global) rayon pool busy
    let mut c = ctx.clone();
    c.threads = ctx.threads.min(4);
    let rep = run_cases(&c, n, &one_case);
    let meta = Meta {
        level: "exploration",
        rule: "case = scenario (generated config, 3 backups, the first forgotten so that its packs are prunable) x pairing {backup of the forgotten content || prune, prune || that backup, backup || backup, backup of new content || prune, backup of new content || prune on the repository where nothing was forgotten (the prune has nothing to do)}; the first command runs in its own thread through repository handles of its own party and is PARKED by the storage gate at its k-th backend operation (reads, lists, writes all count) while the second command runs to completion, then resumes; k sweeps all operations (thorough) or a boundary+random sample (quick); prune is non-instant with keep-delete 1 h. After a follow-up prune (not for backup||backup): check(read_data) clean, every snapshot present reads back equal to the model of the source it was taken from, raw reachability complete. distinct_nontrivial = distinct (pairing, position class) with real overlap".to_string(),
        exhaustive: false,
        assumptions: vec![
            "overlap granularity is one backend operation; both commands run in one process on handles of their own (the library takes no locks)".to_string(),
            "two-level interleavings (second command itself parked) are not generated".to_string(),
            "both commands share rayon's process-global pool; when a pool thread working for the second command steals a job of the parked first command the second command stalls, which two processes cannot do to each other: the harness detects 1.5 s without storage progress, opens the gate and lets both run concurrently (counter interleavings_where_gate_was_opened_early); the outcome is judged all the same, any schedule has to satisfy the property".to_string(),
            "premise of the property: keep-delete (1 h) exceeds the duration of the overlapped backup".to_string(),
        ],
    };
    (rep, meta)
}
