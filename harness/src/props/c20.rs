//! C20 Local storage backends are exact maps and publish files atomically

use std::{
    collections::{BTreeMap, BTreeSet},
    path::Path,
    process::Command,
    sync::{
        Arc, Mutex,
        atomic::{AtomicBool, AtomicU64, Ordering},
    },
};

use bytes::Bytes;
use rustic_backend::{LocalBackend, OpenDALBackend};
use rustic_core::{FileType, Id, ReadBackend, WriteBackend};
use serde_json::json;

use crate::{
    evidence::{Ctx, Meta, Report, Tier, catch, panic_sig, run_cases},
    rawrepo::sha_id,
    repo::errstr,
    rng::Rng,
    store::{ALL_TYPES, ft_idx, ft_name},
};

#[derive(Clone, Copy, Debug, PartialEq, Eq)]
enum Kind {
    Local,
    OpendalFs,
    OpendalMemory,
}

fn make(kind: Kind, dir: &Path) -> Result<Arc<dyn WriteBackend>, String> {
    Ok(match kind {
        Kind::Local => Arc::new(LocalBackend::new(dir.to_str().unwrap(), None).map_err(|e| errstr(&e))?),
        Kind::OpendalFs => {
            let mut o = BTreeMap::new();
            let _ = o.insert("root".to_string(), dir.to_str().unwrap().to_string());
            Arc::new(OpenDALBackend::new("fs", o).map_err(|e| errstr(&e))?)
        }
        Kind::OpendalMemory => Arc::new(OpenDALBackend::new("memory", BTreeMap::new()).map_err(|e| errstr(&e))?),
    })
}

fn type_dir(t: FileType) -> &'static str {
    match t {
        FileType::Config => "",
        FileType::Index => "index",
        FileType::Key => "keys",
        FileType::Snapshot => "snapshots",
        FileType::Pack => "data",
    }
}

/// plant stray entries that must never be listed
fn plant_strays(dir: &Path, r: &mut Rng, some_id: &Id) -> usize {
    let hex = some_id.to_hex().to_string();
    let mut n = 0;
    for t in [FileType::Index, FileType::Key, FileType::Snapshot, FileType::Pack] {
        let base = if t == FileType::Pack { dir.join("data").join(&hex[..2]) } else { dir.join(type_dir(t)) };
        let _ = std::fs::create_dir_all(&base);
        let names = vec![
            format!("{hex}-tmp-"),
            hex[..63].to_string(),
            format!("{hex}0"),
            "not-a-hex-name".to_string(),
            ".hidden".to_string(),
            format!(".{hex}"),
            hex.to_uppercase() + "G",
            "z".repeat(64),
        ];
        for name in names {
            if r.chance(1, 2) {
                if std::fs::write(base.join(&name), b"stray").is_ok() {
                    n += 1;
                }
            }
        }
        // a directory named like an id
        let mut b = [0u8; 32];
        r.fill(&mut b);
        if std::fs::create_dir_all(base.join(hex::encode(b))).is_ok() {
            n += 1;
        }
    }
    // sibling directories whose names merely START with a type directory's name, holding id-named files (a backup copy
    // someone left next to the repository): a prefix listing would pick them up
    for (dname, sub) in [("snapshots.bak", ""), ("index-old", ""), ("keys2", ""), ("data.orig", &hex[..2]), ("data2", &hex[..2]), ("config.d", "")] {
        if r.chance(1, 2) {
            let d = if sub.is_empty() { dir.join(dname) } else { dir.join(dname).join(sub) };
            if std::fs::create_dir_all(&d).is_ok() && std::fs::write(d.join(&hex), b"foreign copy").is_ok() {
                n += 1;
            }
            let mut b = [0u8; 32];
            r.fill(&mut b);
            let other = hex::encode(b);
            let d2 = if sub.is_empty() { dir.join(dname) } else { dir.join(dname).join(&other[..2]) };
            if std::fs::create_dir_all(&d2).is_ok() && std::fs::write(d2.join(&other), b"foreign file").is_ok() {
                n += 1;
            }
        }
    }
    n
}

fn gen_ids(r: &mut Rng, n: usize) -> Vec<Id> {
    (0..n)
        .map(|i| {
            let mut b = [0u8; 32];
            r.fill(&mut b);
            // spread over the 256 data sub-directories, and some sharing a prefix
            if i % 3 == 0 {
                b[0] = (i * 37 % 256) as u8;
            }
            Id::new(b)
        })
        .collect()
}

fn program(ctx: &Ctx, case: u64, r: &mut Rng, rep: &mut Report) {
    let kind = [Kind::Local, Kind::OpendalFs, Kind::OpendalMemory][(case % 3) as usize];
    let dir = ctx.case_dir(case);
    let be = match make(kind, &dir) {
        Ok(b) => b,
        Err(e) => {
            rep.inconclusive(format!("cannot create backend {kind:?}: {e}"));
            return;
        }
    };
    let detail0 = json!({"backend": format!("{kind:?}")});
    if let Err(e) = be.create() {
        rep.violation(case, format!("create-failed/{kind:?}"), errstr(&e), detail0);
        return;
    }
    let ids = gen_ids(r, 10);
    let strays = if kind == Kind::OpendalMemory { 0 } else { plant_strays(&dir, r, &ids[0]) };
    rep.count("stray_entries_planted", strays as u64);
    let mut model: BTreeMap<(u8, Id), Bytes> = BTreeMap::new();
    let norm = |t: FileType, id: &Id| if t == FileType::Config { Id::default() } else { *id };
    let n_ops = r.range(20, 60);
    let trace: std::cell::RefCell<Vec<String>> = std::cell::RefCell::new(Vec::new());
    let big_allowed = ctx.tier == Tier::Thorough && case % 20 == 0;
    for step in 0..n_ops {
        let t = *r.pick(&ALL_TYPES);
        let id = *r.pick(&ids);
        let key = (ft_idx(t), norm(t, &id));
        let op = r.below(10);
        rep.evaluations += 1;
        let detail = || json!({"backend": format!("{kind:?}"), "step": step, "trace": trace.borrow().iter().rev().take(12).rev().cloned().collect::<Vec<_>>()});
        // a write that fails half-way (the temporary file cannot be created or filled): it must report an error and
        // leave the published state of that (type, id) exactly as it was
        if kind == Kind::Local && r.chance(1, 10) {
            let hex = id.to_hex().to_string();
            let base = match t {
                FileType::Config => dir.clone(),
                FileType::Pack => dir.join("data").join(&hex[..2]),
                _ => dir.join(type_dir(t)),
            };
            let _ = std::fs::create_dir_all(&base);
            let tmp = base.join(if t == FileType::Config { "config-tmp-".to_string() } else { format!("{hex}-tmp-") });
            let _ = std::fs::remove_file(&tmp);
            let obstacle = if r.chance(1, 2) { "directory" } else { "symlink-to-/dev/full" };
            let planted = if obstacle == "directory" { std::fs::create_dir(&tmp).is_ok() } else { std::os::unix::fs::symlink("/dev/full", &tmp).is_ok() };
            if planted {
                let n = 1 + r.usize_below(5000);
                let data = Bytes::from(r.bytes(n));
                let mut list = rustic_core::BytesList::default();
                list.add(data);
                trace.borrow_mut().push(format!("failing write ({obstacle} at the temporary path) {} {}", ft_name(t), &hex[..8]));
                rep.count("writes_made_to_fail", 1);
                match catch(|| be.write_bytes(t, &id, false, list)) {
                    Err(p) => rep.violation(case, format!("panic:{}", panic_sig(&p)), format!("{kind:?} failing write panicked: {p}"), detail()),
                    Ok(Ok(())) => rep.violation(case, "failed-write-reported-ok/Local".to_string(), format!("write_bytes returned Ok although the temporary file could not be written ({obstacle})"), detail()),
                    Ok(Err(_)) => {}
                }
                let _ = std::fs::remove_dir(&tmp);
                let _ = std::fs::remove_file(&tmp);
                // the published state is what it was
                match (model.get(&key), catch(|| be.read_full(t, &id))) {
                    (_, Err(p)) => rep.violation(case, format!("panic:{}", panic_sig(&p)), format!("read_full panicked: {p}"), detail()),
                    (Some(m), Ok(Ok(b))) if *m == b => {}
                    (None, Ok(Err(_))) => {}
                    (Some(_), Ok(other)) => rep.violation(case, "failed-write-damaged-published-file/Local".to_string(), format!("after a failed write of an id that was already stored, read_full gives {:?}", other.map(|b| b.len()).map_err(|e| errstr(&e))), detail()),
                    (None, Ok(Ok(b))) => rep.violation(case, "failed-write-published/Local".to_string(), format!("a failed write made {} bytes visible under the id", b.len()), detail()),
                }
                rep.class(format!("failing-write/{obstacle}/{}", if model.contains_key(&key) { "existing" } else { "absent" }));
                continue;
            }
        }
        match op {
            0..=2 => {
                let len = match r.below(12) {
                    0 => 0,
                    1 => 1,
                    2 => 4095,
                    3 => 4096,
                    4 => 4097,
                    5 if big_allowed => 1 << 20 | r.usize_below(7 << 20),
                    _ => r.usize_below(3000),
                };
                let data = Bytes::from(r.bytes(len));
                trace.borrow_mut().push(format!("write {} {} len {len}", ft_name(t), &id.to_hex()[..8]));
                // content in several parts, as the packer hands it over
                let mut list = rustic_core::BytesList::default();
                if len > 2 && r.chance(1, 2) {
                    // OpenDAL (0.58, fs and memory service alike) loops forever on a multi-part buffer with an empty part
                    // (observed: endless pwrite64(count=0) in a tokio worker) - a dependency issue outside what the
                    // library itself produces; there the parts are never empty. The local backend also gets empty
                    // parts at the front, in the middle and at the end.
                    let cut = 1 + r.usize_below(len - 1);
                    let empties = kind == Kind::Local && r.chance(1, 2);
                    let e = |list: &mut rustic_core::BytesList, r: &mut Rng| {
                        if empties {
                            for _ in 0..r.below(3) {
                                list.add(Bytes::new());
                            }
                        }
                    };
                    e(&mut list, r);
                    list.add(data.slice(..cut));
                    e(&mut list, r);
                    list.add(data.slice(cut..));
                    e(&mut list, r);
                    if empties {
                        rep.count("writes_with_empty_parts", 1);
                    }
                } else {
                    list.add(data.clone());
                }
                match catch(|| be.write_bytes(t, &id, r.chance(1, 2), list)) {
                    Err(p) => rep.violation(case, format!("panic:{}", panic_sig(&p)), format!("{kind:?} write panicked: {p}"), detail()),
                    Ok(Err(e)) => rep.violation(case, format!("write-failed/{kind:?}"), errstr(&e), detail()),
                    Ok(Ok(())) => {
                        let _ = model.insert(key, data);
                    }
                }
            }
            3 => {
                trace.borrow_mut().push(format!("remove {} {}", ft_name(t), &id.to_hex()[..8]));
                let existed = model.remove(&key).is_some();
                match catch(|| be.remove(t, &id, false)) {
                    Err(p) => rep.violation(case, format!("panic:{}", panic_sig(&p)), format!("{kind:?} remove panicked: {p}"), detail()),
                    Ok(res) => {
                        if existed && res.is_err() {
                            rep.violation(case, format!("remove-failed/{kind:?}"), format!("removing an existing file failed: {}", errstr(&res.unwrap_err())), detail());
                        } else {
                            rep.set_add("remove_absent_behaviour", format!("{kind:?}:{}", if res.is_ok() { "ok" } else { "error" }));
                        }
                    }
                }
            }
            4 | 5 => {
                trace.borrow_mut().push(format!("read_full {} {}", ft_name(t), &id.to_hex()[..8]));
                match catch(|| be.read_full(t, &id)) {
                    Err(p) => rep.violation(case, format!("panic:{}", panic_sig(&p)), format!("{kind:?} read_full panicked: {p}"), detail()),
                    Ok(res) => match (model.get(&key), res) {
                        (Some(m), Ok(b)) => {
                            if *m != b {
                                rep.violation(case, format!("read_full-wrong/{kind:?}"), format!("read_full returned {} bytes, written were {}", b.len(), m.len()), detail());
                            }
                        }
                        (Some(_), Err(e)) => rep.violation(case, format!("read_full-failed/{kind:?}"), errstr(&e), detail()),
                        (None, Ok(b)) => rep.violation(case, format!("read_full-phantom/{kind:?}"), format!("read_full of an absent file returned {} bytes", b.len()), detail()),
                        (None, Err(_)) => {}
                    },
                }
            }
            6 | 7 => {
                let mlen = model.get(&key).map_or(100, Bytes::len);
                let (off, len, class) = match r.below(7) {
                    0 => (0, mlen, "whole"),
                    1 => (r.usize_below(mlen + 1), 0, "len0"),
                    2 => {
                        let o = r.usize_below(mlen + 1);
                        (o, mlen - o, "to-eof")
                    }
                    3 => (mlen, 1, "beyond-eof"),
                    4 => (r.usize_below(mlen + 1), mlen + 10, "crossing-eof"),
                    _ => {
                        let o = r.usize_below(mlen + 1);
                        (o, r.usize_below(mlen - o + 1), "inside")
                    }
                };
                trace.borrow_mut().push(format!("read_partial {} {} {off}+{len}", ft_name(t), &id.to_hex()[..8]));
                match catch(|| be.read_partial(t, &id, r.chance(1, 2), off as u32, len as u32)) {
                    Err(p) => rep.violation(case, format!("panic:{}", panic_sig(&p)), format!("{kind:?} read_partial({off},{len}) on a file of {mlen} bytes panicked: {p}"), detail()),
                    Ok(res) => match model.get(&key) {
                        None => {
                            if let Ok(b) = res {
                                if !b.is_empty() {
                                    rep.violation(case, format!("read_partial-phantom/{kind:?}"), format!("read_partial of an absent file returned {} bytes", b.len()), detail());
                                }
                            }
                        }
                        Some(m) => {
                            let in_range = off + len <= m.len();
                            match res {
                                Ok(b) => {
                                    // never bytes that were not written at that position
                                    let avail = m.len().saturating_sub(off);
                                    let ok = b.len() <= len && b.len() <= avail && b[..] == m[off.min(m.len())..off.min(m.len()) + b.len()];
                                    if !ok || (in_range && b.len() != len) {
                                        rep.violation(case, format!("read_partial-wrong/{kind:?}/{class}"), format!("read_partial({off},{len}) on {} bytes returned {} bytes that are not the written range", m.len(), b.len()), detail());
                                    }
                                    if !in_range {
                                        rep.set_add("out_of_range_read_behaviour", format!("{kind:?}:{class}:short-ok"));
                                    }
                                }
                                Err(e) => {
                                    if in_range {
                                        rep.violation(case, format!("read_partial-failed/{kind:?}/{class}"), format!("in-range read_partial({off},{len}) on {} bytes failed: {}", m.len(), errstr(&e)), detail());
                                    } else {
                                        rep.set_add("out_of_range_read_behaviour", format!("{kind:?}:{class}:error"));
                                    }
                                }
                            }
                        }
                    },
                }
            }
            _ => {
                trace.borrow_mut().push(format!("list {}", ft_name(t)));
                let with_size = r.chance(1, 2);
                let res = catch(|| if with_size { be.list_with_size(t) } else { be.list(t).map(|v| v.into_iter().map(|i| (i, u32::MAX)).collect()) });
                match res {
                    Err(p) => rep.violation(case, format!("panic:{}", panic_sig(&p)), format!("{kind:?} list panicked: {p}"), detail()),
                    Ok(Err(e)) => rep.violation(case, format!("list-failed/{kind:?}"), errstr(&e), detail()),
                    Ok(Ok(l)) => {
                        let got: BTreeMap<Id, u32> = l.iter().copied().collect();
                        if got.len() != l.len() {
                            rep.violation(case, format!("list-duplicates/{kind:?}"), "listing contains an id twice".to_string(), detail());
                        }
                        let exp: BTreeMap<Id, u32> = model.iter().filter(|(k, _)| k.0 == ft_idx(t)).map(|(k, v)| (k.1, v.len() as u32)).collect();
                        let ids_got: BTreeSet<&Id> = got.keys().collect();
                        let ids_exp: BTreeSet<&Id> = exp.keys().collect();
                        if ids_got != ids_exp {
                            let extra: Vec<_> = ids_got.difference(&ids_exp).take(2).collect();
                            let missing: Vec<_> = ids_exp.difference(&ids_got).take(2).collect();
                            rep.violation(case, format!("list-wrong/{kind:?}/{}", ft_name(t)), format!("listing of {} differs from the files written and not removed: extra {extra:?} missing {missing:?}", ft_name(t)), detail());
                        } else if with_size && got != exp {
                            rep.violation(case, format!("list-size-wrong/{kind:?}/{}", ft_name(t)), "listed sizes differ from the true sizes".to_string(), detail());
                        }
                    }
                }
            }
        }
    }
    rep.class(format!("{kind:?}/{}", if strays > 0 { "with-strays" } else { "clean" }));
    if case % 31 == 0 {
        rep.sample(json!({"backend": format!("{kind:?}"), "ops": n_ops, "tail_of_trace": trace.borrow().iter().rev().take(8).rev().cloned().collect::<Vec<_>>()}));
    }
    let _ = std::fs::remove_dir_all(&dir);
}

// ------------------------------------------------------------------------------------------------
static HOOK_LOCK: Mutex<()> = Mutex::new(());

/// (i) pre-publish point of the directory backend
fn publish_case(ctx: &Ctx, case: u64, r: &mut Rng, rep: &mut Report) {
    let _g = HOOK_LOCK.lock().unwrap_or_else(std::sync::PoisonError::into_inner);
    let dir = ctx.case_dir(case);
    let be = LocalBackend::new(dir.to_str().unwrap(), None).expect("local backend");
    be.create().expect("create");
    let be = Arc::new(be);
    let t = *r.pick(&[FileType::Snapshot, FileType::Index, FileType::Pack, FileType::Key]);
    let old = r.rbytes(1, 500);
    let new = r.rbytes(1, 5000);
    let id = sha_id(&new);
    let overwrite = r.chance(1, 3);
    if overwrite {
        be.write_bytes(t, &id, false, Bytes::from(old.clone()).into()).expect("first write");
    }
    let abandon = r.chance(1, 2);
    let observed: Arc<Mutex<Vec<String>>> = Arc::new(Mutex::new(Vec::new()));
    {
        let be2 = be.clone();
        let observed = observed.clone();
        let old = old.clone();
        let dirp = dir.clone();
        rustic_backend::local::verif::set_pre_publish_hook(Some(Arc::new(move |tmp: &Path, dest: &Path| {
            if !dest.starts_with(&dirp) {
                return;
            }
            let mut o = observed.lock().unwrap();
            o.push("hook".to_string());
            // at this point the new content must not be visible under the final name
            let listed = be2.list(t).map(|l| l.contains(&id)).unwrap_or(false);
            if listed && !overwrite {
                o.push("VIOLATION listed-before-publish".to_string());
            }
            match be2.read_full(t, &id) {
                Ok(b) => {
                    if overwrite && b[..] == old[..] {
                        o.push("old-content-complete".to_string());
                    } else {
                        o.push(format!("VIOLATION readable-before-publish ({} bytes)", b.len()));
                    }
                }
                Err(_) => o.push("not-readable".to_string()),
            }
            if !tmp.exists() {
                o.push("VIOLATION temp file missing at the pre-publish point".to_string());
            }
            if abandon {
                drop(o);
                // simulated interruption: the write never gets to publish
                panic!("simulated interruption before publish");
            }
        })));
    }
    rep.evaluations += 1;
    let res = catch(|| be.write_bytes(t, &id, false, Bytes::from(new.clone()).into()));
    rustic_backend::local::verif::set_pre_publish_hook(None);
    let obs = observed.lock().unwrap().clone();
    let detail = json!({"type": ft_name(t), "overwrite": overwrite, "abandon": abandon, "observed": obs});
    if !obs.iter().any(|x| x == "hook") {
        rep.inconclusive("pre-publish hook was not reached".to_string());
    }
    for v in obs.iter().filter(|x| x.starts_with("VIOLATION")) {
        rep.violation(case, format!("publish:{}", v.split(' ').nth(1).unwrap_or("?")), v.clone(), detail.clone());
    }
    // after the (possibly abandoned) write: no listed partial file
    let listed: BTreeMap<Id, u32> = be.list_with_size(t).unwrap_or_default().into_iter().collect();
    match (abandon, listed.get(&id)) {
        (true, None) => {
            if overwrite {
                rep.violation(case, "publish:overwrite-lost-old", "an interrupted overwrite removed the old file".to_string(), detail.clone());
            }
        }
        (true, Some(sz)) => {
            let content = be.read_full(t, &id).unwrap_or_default();
            if !(overwrite && content[..] == old[..] && *sz as usize == old.len()) {
                rep.violation(case, "publish:partial-file-listed", format!("after an interrupted write the id is listed with {sz} bytes (content is neither absent nor the complete old file)"), detail.clone());
            }
        }
        (false, Some(sz)) => {
            let content = be.read_full(t, &id).unwrap_or_default();
            if content[..] != new[..] || *sz as usize != new.len() {
                rep.violation(case, "publish:wrong-after-write", "after the write the file is not the complete new content".to_string(), detail.clone());
            }
            if !matches!(res, Ok(Ok(()))) {
                rep.violation(case, "publish:write-error", format!("{res:?}"), detail.clone());
            }
        }
        (false, None) => rep.violation(case, "publish:not-listed-after-write", "file is not listed after a successful write".to_string(), detail.clone()),
    }
    rep.class(format!("publish/{}{}", if overwrite { "overwrite" } else { "new" }, if abandon { "/interrupted" } else { "" }));
    let _ = std::fs::remove_dir_all(&dir);
}

/// (ii) observational: concurrent readers only ever see complete files
fn concurrent_case(ctx: &Ctx, case: u64, r: &mut Rng, rep: &mut Report) {
    let dir = ctx.case_dir(case);
    let be = Arc::new(LocalBackend::new(dir.to_str().unwrap(), None).expect("local backend"));
    be.create().expect("create");
    let t = *r.pick(&[FileType::Snapshot, FileType::Index, FileType::Pack]);
    let n_files = 60;
    let files: Vec<(Id, Bytes)> = (0..n_files)
        .map(|_| {
            let d = Bytes::from(r.rbytes(1, 200_000));
            (sha_id(&d), d)
        })
        .collect();
    let stop = AtomicBool::new(false);
    let seen = AtomicU64::new(0);
    let bad: Mutex<Vec<String>> = Mutex::new(Vec::new());
    std::thread::scope(|s| {
        for _ in 0..2 {
            let _ = s.spawn(|| {
                while !stop.load(Ordering::SeqCst) {
                    if let Ok(l) = be.list_with_size(t) {
                        for (id, sz) in l {
                            let _ = seen.fetch_add(1, Ordering::Relaxed);
                            match be.read_full(t, &id) {
                                Ok(b) => {
                                    if sha_id(&b) != id || b.len() != sz as usize {
                                        bad.lock().unwrap().push(format!("listed id {id} (size {sz}) read back {} bytes with hash {}", b.len(), sha_id(&b)));
                                    }
                                }
                                Err(e) => bad.lock().unwrap().push(format!("listed id {id} could not be read: {}", errstr(&e))),
                            }
                        }
                    }
                }
            });
        }
        // whatever happens to the writers, the readers must be told to stop
        struct StopOnDrop<'a>(&'a AtomicBool);
        impl Drop for StopOnDrop<'_> {
            fn drop(&mut self) {
                self.0.store(true, Ordering::SeqCst);
            }
        }
        let _stop = StopOnDrop(&stop);
        std::thread::scope(|w| {
            for chunk in files.chunks(n_files / 3) {
                let be = be.clone();
                let bad = &bad;
                let _ = w.spawn(move || {
                    for (id, d) in chunk {
                        if let Err(e) = be.write_bytes(t, id, false, d.clone().into()) {
                            bad.lock().unwrap().push(format!("write of {id} failed: {}", errstr(&e)));
                        }
                    }
                });
            }
        });
    });
    rep.evaluations += 1;
    rep.count("concurrent_listing_observations", seen.load(Ordering::Relaxed));
    for b in bad.lock().unwrap().iter().take(2) {
        rep.violation(case, "publish:incomplete-file-visible", b.clone(), json!({"type": ft_name(t)}));
    }
    rep.class("publish/concurrent-readers".to_string());
    let _ = std::fs::remove_dir_all(&dir);
}

/// worker for the strace tier: plain writes through the directory backend
pub fn strace_worker(dir: &str) {
    let be = LocalBackend::new(dir, None).expect("backend");
    be.create().expect("create");
    let mut r = Rng::new(7);
    for i in 0..12 {
        let d = r.bytes(1000 + i * 777);
        let id = sha_id(&d);
        let t = [FileType::Snapshot, FileType::Index, FileType::Pack, FileType::Key][i % 4];
        be.write_bytes(t, &id, false, Bytes::from(d).into()).expect("write");
        println!("WROTE {} {}", type_dir(t), id.to_hex().as_str());
    }
}

/// (iii) syscall log: the final name only ever appears through rename of a synced temp file
fn strace_tier(ctx: &Ctx, rep: &mut Report) {
    let dir = ctx.case_dir(777_777);
    let repo = dir.join("repo");
    let log = dir.join("strace.log");
    let exe = std::env::current_exe().expect("exe");
    let out = Command::new("strace")
        .args(["-f", "-y", "-o", log.to_str().unwrap(), "-e", "trace=openat,open,creat,rename,renameat,renameat2,fsync,fdatasync,link,linkat,symlink,symlinkat"])
        .arg(&exe)
        .args(["C20", "--strace-worker", repo.to_str().unwrap()])
        .output();
    let Ok(out) = out else {
        rep.inconclusive("strace could not be started".to_string());
        return;
    };
    let written: Vec<String> = String::from_utf8_lossy(&out.stdout).lines().filter_map(|l| l.strip_prefix("WROTE ").map(|x| x.split(' ').nth(1).unwrap_or("").to_string())).collect();
    let txt = std::fs::read_to_string(&log).unwrap_or_default();
    if written.is_empty() || txt.is_empty() {
        rep.inconclusive("strace tier produced no observations".to_string());
        return;
    }
    let mut synced_tmp: BTreeSet<String> = BTreeSet::new();
    let mut n_checked = 0u64;
    for line in txt.lines() {
        // fsync(3</path/to/file-tmp->) = 0
        if line.contains("fsync(") || line.contains("fdatasync(") {
            if let Some(p) = line.split('<').nth(1).and_then(|x| x.split('>').next()) {
                let _ = synced_tmp.insert(p.to_string());
            }
        }
        for id in &written {
            if !line.contains(id.as_str()) {
                continue;
            }
            n_checked += 1;
            let is_open = line.contains("openat(") || line.contains("open(") || line.contains("creat(");
            if is_open && (line.contains("O_CREAT") || line.contains("O_WRONLY") || line.contains("O_RDWR") || line.contains("O_TRUNC")) {
                // only the temp name may be opened for writing
                let path = line.split('"').nth(1).unwrap_or("");
                if !path.ends_with("-tmp-") {
                    rep.violation(20_001, "publish:final-name-opened-for-writing", format!("syscall log: {line}"), json!({}));
                }
            }
            if line.contains("rename") {
                let parts: Vec<&str> = line.split('"').collect();
                let (from, to) = (parts.get(1).copied().unwrap_or(""), parts.get(3).copied().unwrap_or(""));
                if !from.ends_with("-tmp-") || to.ends_with("-tmp-") {
                    rep.violation(20_002, "publish:unexpected-rename", format!("syscall log: {line}"), json!({}));
                }
                if !synced_tmp.contains(from) {
                    rep.violation(20_003, "publish:rename-before-fsync", format!("temp file {from} was renamed without a preceding fsync"), json!({}));
                }
            }
            if line.contains("link") && !line.contains("unlink") && !line.contains("readlink") {
                rep.violation(20_004, "publish:link-used", format!("syscall log: {line}"), json!({}));
            }
        }
    }
    rep.count("strace_lines_checked", n_checked);
    rep.count("strace_files_written", written.len() as u64);
    rep.evaluations += written.len() as u64;
    rep.class("publish/strace".to_string());
    let _ = std::fs::remove_dir_all(&dir);
}

pub fn run(ctx: &Ctx) -> (Report, Meta) {
    let mut rep = run_cases(ctx, ctx.tier.pick(450, 20_000), &program);
    let mut c2 = ctx.clone();
    c2.seed ^= 0x20a;
    rep.merge({ let mut cb = c2.clone(); cb.case_base = 1_000_000; run_cases(&cb, ctx.tier.pick(40, 800), &|c, i, r, rep| publish_case(c, i + 1_000_000, r, rep)) });
    let mut c3 = ctx.clone();
    c3.seed ^= 0x20b;
    c3.threads = 2;
    rep.merge({ let mut cb = c3.clone(); cb.case_base = 2_000_000; run_cases(&cb, ctx.tier.pick(2, 12), &|c, i, r, rep| concurrent_case(c, i + 2_000_000, r, rep)) });
    if ctx.only_case.is_none() {
        strace_tier(ctx, &mut rep);
    }
    let meta = Meta {
        level: "exploration",
        rule: "model-based: random programs of 20-60 operations {write (content in one or two parts, sizes 0,1,4095..4097, random, a few multi-MiB in the thorough tier), read_full, read_partial (whole, len 0, to EOF, beyond EOF, crossing EOF, inside), list, list_with_size, remove} over all five file types and ids spread over the data sub-directories on the directory backend, OpenDAL fs and OpenDAL memory, checked step by step against a BTreeMap; stray entries (temp leftovers, 63/65-char names, non-hex names, dot files, directories named like ids) planted in the directory trees must never be listed; out-of-range reads only must not panic nor return bytes that were not written there (behaviours listed in evidence). Atomic publish on the directory backend: at the pre-publish hook (H5) the id is neither listed nor readable (or still the complete old file) and an interruption there leaves no listed partial file; concurrent reader threads listing+reading while writers publish only ever see complete files (size and SHA-256); strace log: final names are never opened for writing, appear only through rename of a temp file that was fsync'ed. distinct_nontrivial = distinct (backend, strays) / publish classes".to_string(),
        exhaustive: false,
        assumptions: vec!["durability after power loss and remote services are out of reach".to_string(), "the pre-publish hook is process-global: those cases are serialised".to_string()],
    };
    (rep, meta)
}
