//! C04 Stored data is authenticated ciphertext; tampering is always detected

use std::{
    collections::{BTreeMap, BTreeSet},
    sync::Arc,
};

use rustic_core::{
    BackupOptions, ConfigOptions, Credentials, FileType, Id, KeyOptions, ParentOptions, StringList,
    repofile::{KeyId, MasterKey, SnapshotFile},
    verif,
};
use serde_json::json;

use crate::{
    cmds::{Cmd, Env, Limit, PruneSpec, read_each_snapshot},
    evidence::{Ctx, Meta, Report, Tier, catch, panic_sig, run_cases},
    model::{Entry, Frag, Kind, ModelTree, pk},
    observe::{CmpOpts, Observed, diff_obs},
    props::{
        c02::setup,
        c05::{Fault, enumerate_faults},
    },
    rawrepo::{RawKey, decode_file, parse_pack_trailer},
    repo::{backup_model, errstr, new_repo},
    rng::Rng,
    store::{StoreState, Universe, ft_name},
};

fn marker(r: &mut Rng, tag: &str) -> String {
    const A: &[u8] = b"abcdefghijklmnopqrstuvwxyz0123456789";
    let mut s = format!("MK{tag}");
    while s.len() < 16 {
        s.push(A[r.usize_below(A.len())] as char);
    }
    s
}

fn contains(h: &[u8], n: &[u8]) -> bool {
    !n.is_empty() && h.windows(n.len()).any(|w| w == n)
}

/// (a) + (b): storage scan and nonce collection over one history
fn scan_history(_ctx: &Ctx, case: u64, r: &mut Rng, rep: &mut Report) {
    let h = match setup(r) {
        Ok(h) => h,
        Err(e) => {
            rep.inconclusive(format!("setup: {e}"));
            return;
        }
    };
    let rk = h.rk();
    // markers in everything a user supplies
    let m_content = marker(r, "c");
    let m_name = marker(r, "n");
    let m_link = marker(r, "l");
    let m_tag = marker(r, "t");
    let m_host = marker(r, "h");
    let m_label = marker(r, "b");
    let m_desc = marker(r, "d");
    let mut model = ModelTree::new();
    let mut body = r.bytes(h.cfg.max + 100);
    body.extend_from_slice(m_content.as_bytes());
    body.extend(r.bytes(50));
    model.insert(pk(&format!("dir_{m_name}/file_{m_name}.txt")), Entry { kind: Kind::File(Arc::new(body)), mode: 0o644, mtime: (1_650_000_000, 0), hardlink: None });
    // a highly compressible file made only of the marker (compression must not leak it either)
    model.insert(pk("rep.txt"), Entry { kind: Kind::File(Arc::new(m_content.as_bytes().repeat(60))), mode: 0o600, mtime: (1_650_000_001, 0), hardlink: None });
    model.insert(pk("lnk"), Entry { kind: Kind::Symlink(format!("/target/{m_link}").into_bytes()), mode: 0o777, mtime: (1_650_000_002, 0), hardlink: None });
    let mut nonces: BTreeMap<[u8; 16], String> = BTreeMap::new();
    let mut n_msgs = 0u64;
    let steps = r.range(2, 5);
    for step in 0..steps {
        // backup with marked snapshot metadata
        let mut snap = SnapshotFile::default();
        snap.time = rustic_core::jiff::Timestamp::new(1_700_000_000 + step as i64 * 50, 0).unwrap().to_zoned(rustic_core::jiff::tz::TimeZone::UTC);
        snap.hostname = m_host.clone();
        snap.label = m_label.clone();
        snap.description = Some(m_desc.clone());
        let mut tl = StringList::default();
        tl.add(m_tag.clone());
        snap.tags = tl;
        let res = h.env.ids().and_then(|repo| backup_model(&repo, &model, Frag::Whole, &BackupOptions::default().parent_opts(ParentOptions::default().force(step % 2 == 0)), snap).map_err(|e| errstr(&e)));
        if let Err(e) = res {
            rep.violation(case, "backup-error", e, json!({"config": h.cfg.desc}));
            return;
        }
        if step == 1 {
            let _ = Cmd::Forget { positions: vec![0] }.run(&h.env);
            let mut s = PruneSpec::default_safe();
            s.max_unused = Limit::Pct(0);
            s.repack_all = true;
            let _ = Cmd::Prune { spec: s }.run(&h.env);
        }
        if step == 2 {
            let _ = Cmd::ApplyConfig { opts: ConfigOptions::default().set_treepack_size(bytesize::ByteSize(7777)) }.run(&h.env);
        }
        // mutate content a bit so that new blobs appear
        if let Some(Entry { kind: Kind::File(b), .. }) = model.entries.get(&pk(&format!("dir_{m_name}/file_{m_name}.txt"))).cloned() {
            let mut v = b.as_ref().clone();
            let pos = r.usize_below(v.len().saturating_sub(40).max(1));
            v[pos] ^= 0x55;
            model.insert(pk(&format!("dir_{m_name}/file_{m_name}.txt")), Entry { kind: Kind::File(Arc::new(v)), mode: 0o644, mtime: (1_650_000_000 + step as i64 + 1, 0), hardlink: None });
        }
        // scan storage
        rep.evaluations += 1;
        let st = h.uni.state(0);
        let detail = json!({"config": h.cfg.desc, "step": step});
        let secrets: Vec<(&str, Vec<u8>)> = vec![
            ("file content", m_content.clone().into_bytes()),
            ("file name", m_name.clone().into_bytes()),
            ("symlink target", m_link.clone().into_bytes()),
            ("tag", m_tag.clone().into_bytes()),
            ("host name", m_host.clone().into_bytes()),
            ("label", m_label.clone().into_bytes()),
            ("description", m_desc.clone().into_bytes()),
            ("master key (encrypt)", h.key.encrypt.clone()),
            ("master key (mac k)", h.key.mac.k.clone()),
            ("master key (mac r)", h.key.mac.r.clone()),
        ];
        for (k, bytes) in &st.files {
            let t = crate::store::ft_from(k.0);
            rep.count("stored_files_scanned", 1);
            rep.count("stored_bytes_scanned", bytes.len() as u64);
            for (what, s) in &secrets {
                if contains(bytes, s) {
                    rep.violation(case, format!("plaintext-leak:{}:{}", ft_name(t), what.split(' ').next().unwrap()), format!("{what} appears in clear in stored {} file {}", ft_name(t), k.1), detail.clone());
                }
            }
            if t == FileType::Key {
                continue;
            }
            if serde_json::from_slice::<serde_json::Value>(bytes).is_ok() {
                rep.violation(case, format!("not-encrypted:{}", ft_name(t)), format!("{} file {} parses as JSON without the key", ft_name(t), k.1), detail.clone());
            }
            if bytes.len() >= 4 && bytes[..4] == [0x28, 0xb5, 0x2f, 0xfd] {
                rep.violation(case, format!("not-encrypted:{}", ft_name(t)), format!("{} file {} starts with a zstd frame", ft_name(t), k.1), detail.clone());
            }
            // authenticate + collect nonces
            match t {
                FileType::Pack => match parse_pack_trailer(&rk, bytes) {
                    Err(e) => rep.violation(case, "pack-trailer-not-authentic", format!("pack {}: {e}", k.1), detail.clone()),
                    Ok((entries, hlen)) => {
                        let mut off = 0usize;
                        for e in &entries {
                            let region = &bytes[off..off + e.length as usize];
                            if rk.decrypt(region).is_err() {
                                rep.violation(case, "blob-not-authentic", format!("pack {} blob {} does not authenticate under the master key", k.1, e.id), detail.clone());
                            }
                            let mut n = [0u8; 16];
                            n.copy_from_slice(&region[..16]);
                            n_msgs += 1;
                            if let Some(prev) = nonces.insert(n, format!("blob {} in pack {}", e.id, k.1)) {
                                // the same blob region copied by fast-repack legitimately keeps its bytes (same message)
                                if !prev.starts_with(&format!("blob {}", e.id)) {
                                    rep.violation(case, "nonce-reused", format!("nonce reused: {prev} and blob {} in pack {}", e.id, k.1), detail.clone());
                                }
                            }
                            off += e.length as usize;
                        }
                        let hdr = &bytes[bytes.len() - 4 - hlen..bytes.len() - 4];
                        let mut n = [0u8; 16];
                        n.copy_from_slice(&hdr[..16]);
                        n_msgs += 1;
                        if let Some(prev) = nonces.insert(n, format!("header of pack {}", k.1)).filter(|p| *p != format!("header of pack {}", k.1)) {
                            rep.violation(case, "nonce-reused", format!("nonce reused: {prev} and header of pack {}", k.1), detail.clone());
                        }
                    }
                },
                _ => {
                    if let Err(e) = decode_file(&rk, bytes) {
                        rep.violation(case, format!("file-not-authentic:{}", ft_name(t)), format!("{} file {}: {e}", ft_name(t), k.1), detail.clone());
                    }
                    let mut n = [0u8; 16];
                    n.copy_from_slice(&bytes[..16]);
                    n_msgs += 1;
                    if let Some(prev) = nonces.insert(n, format!("{} file {}", ft_name(t), k.1)) {
                        if prev != format!("{} file {}", ft_name(t), k.1) {
                            rep.violation(case, "nonce-reused", format!("nonce reused: {prev} and {} file {}", ft_name(t), k.1), detail.clone());
                        }
                    }
                }
            }
        }
    }
    rep.count("stored_messages_with_distinct_nonces", nonces.len() as u64);
    rep.count("stored_messages_seen", n_msgs);
    rep.class(format!("scan/{}", h.cfg.class));
    if case % 7 == 0 {
        rep.sample(json!({"kind": "storage scan", "config": h.cfg.desc, "messages": nonces.len()}));
    }
}

/// (b) high-volume nonce freshness and round trips through hook H2
fn crypto_case(_ctx: &Ctx, case: u64, r: &mut Rng, rep: &mut Report, n: usize) {
    let key = MasterKey::new();
    let rk = RawKey::from_master(&key);
    let mut nonces = BTreeSet::new();
    let nfixed = r.usize_below(200);
    let fixed = r.bytes(nfixed);
    for i in 0..n {
        let len = match i % 8 {
            0 => 0,
            1 => 1,
            2 => 15,
            3 => 16,
            4 => 17,
            5 => r.usize_below(70_000),
            _ => r.usize_below(300),
        };
        let pt = if i % 3 == 0 { fixed.clone() } else { r.bytes(len) };
        rep.evaluations += 1;
        let ct = match verif::encrypt_data(&key, &pt) {
            Ok(c) => c,
            Err(e) => {
                rep.violation(case, "encrypt-error", errstr(&e), json!({"len": pt.len()}));
                continue;
            }
        };
        if ct.len() != pt.len() + 32 {
            rep.violation(case, "ciphertext-length", format!("ciphertext length {} for plaintext {}", ct.len(), pt.len()), json!({}));
        }
        let mut nn = [0u8; 16];
        nn.copy_from_slice(&ct[..16]);
        if !nonces.insert(nn) {
            rep.violation(case, "nonce-reused", "two encryptions under one key used the same nonce".to_string(), json!({"i": i}));
        }
        // independent decryption must agree
        match rk.decrypt(&ct) {
            Ok(p2) if p2 == pt => {}
            other => rep.violation(case, "independent-decrypt-disagrees", format!("{:?}", other.map(|v| v.len())), json!({"len": pt.len()})),
        }
        match verif::decrypt_data(&key, &ct) {
            Ok(p2) if p2 == pt => {}
            _ => rep.violation(case, "roundtrip", "decrypt(encrypt(x)) != x".to_string(), json!({"len": pt.len()})),
        }
        // tamper: flip one bit / truncate / extend => must fail
        if !ct.is_empty() && i % 4 == 0 {
            let mut t = ct.clone();
            let p = r.usize_below(t.len());
            t[p] ^= 1 << r.below(8);
            if verif::decrypt_data(&key, &t).is_ok() {
                rep.violation(case, "tamper-accepted:flip", format!("bit flip at byte {p} of {} accepted", t.len()), json!({}));
            }
            let cut = r.usize_below(ct.len());
            if verif::decrypt_data(&key, &ct[..cut]).is_ok() {
                rep.violation(case, "tamper-accepted:truncate", format!("truncation to {cut} of {} accepted", ct.len()), json!({}));
            }
            let mut e = ct.clone();
            e.push(0);
            if verif::decrypt_data(&key, &e).is_ok() {
                rep.violation(case, "tamper-accepted:extend", "extension by one byte accepted".to_string(), json!({}));
            }
            // wrong key
            if verif::decrypt_data(&MasterKey::new(), &ct).is_ok() {
                rep.violation(case, "wrong-key-accepted", "message decrypts under another key".to_string(), json!({}));
            }
        }
        // file / blob codecs
        if i % 16 == 1 {
            let zstd = *r.pick(&[None, Some(0), Some(3), Some(-5)]);
            let json_like = [b"{".to_vec(), pt.clone()].concat();
            match verif::encode_file(&key, zstd, &json_like).and_then(|c| verif::decode_file(&key, &c)) {
                Ok(d) if d == json_like => {}
                other => rep.violation(case, "file-codec-roundtrip", format!("{:?}", other.map(|v| v.len()).map_err(|e| errstr(&e))), json!({"zstd": zstd})),
            }
            match verif::encode_blob(&key, zstd, true, &pt) {
                Ok((c, dl, ul)) => {
                    if dl as usize != pt.len() {
                        rep.violation(case, "blob-codec-length", format!("data length {dl} for {}", pt.len()), json!({}));
                    }
                    match verif::decode_blob(&key, &c, ul) {
                        Ok(d) if d.as_ref() == pt.as_slice() => {}
                        _ => rep.violation(case, "blob-codec-roundtrip", "decode_blob(encode_blob(x)) != x".to_string(), json!({"zstd": zstd, "len": pt.len()})),
                    }
                    // wrong recorded length must be refused
                    if let Some(u) = ul {
                        if let Some(w) = std::num::NonZeroU32::new(u.get() + 1) {
                            if verif::decode_blob(&key, &c, Some(w)).is_ok() {
                                rep.violation(case, "blob-codec-length-unchecked", "decode_blob accepts a wrong uncompressed length".to_string(), json!({}));
                            }
                        }
                    }
                }
                Err(e) => rep.violation(case, "blob-codec-error", errstr(&e), json!({})),
            }
        }
    }
    rep.count("h2_encryptions", n as u64);
    rep.count("h2_distinct_nonces", nonces.len() as u64);
    rep.class("crypto/h2".to_string());
    rep.class("crypto/h2-tamper".to_string());
}

/// (c) tamper oracle over stored files: affected reads fail or return exactly the original
struct TamperTarget {
    key: MasterKey,
    base: StoreState,
    baseline: BTreeMap<Id, Observed>,
    faults: Vec<Fault>,
    desc: String,
    equal_layout: bool,
}

fn build_tamper_target(r: &mut Rng, full: bool, variant: u64) -> Result<TamperTarget, String> {
    let t = crate::props::c05::build_target(r, full, variant)?;
    let rk = RawKey::from_master(&t.key);
    let mut faults = enumerate_faults(&rk, &t.base, r, full);
    // index-semantic edits are not tampering with ciphertext (they are re-encrypted with the key): C05 only
    faults.retain(|f| !matches!(f, Fault::IndexEdit(..)));
    Ok(TamperTarget { key: t.key, base: t.base, baseline: t.baseline, faults, desc: t.desc, equal_layout: variant % 3 == 1 })
}

fn tamper_eval(t: &TamperTarget, f: &Fault, r: &mut Rng) -> Vec<(String, String)> {
    let rk = RawKey::from_master(&t.key);
    let mut st = t.base.clone();
    f.apply(&mut st, &rk, r);
    let uni = Universe::from_states(vec![st.clone()]);
    uni.lock().recording = false;
    let env = Env::single(uni, t.key.clone());
    let mut out = Vec::new();
    match catch(|| read_each_snapshot(&env, r)) {
        Err(p) => out.push((format!("panic:{}", panic_sig(&p)), format!("reading after tampering panicked: {p}"))),
        Ok(Err(_)) => {} // failing is fine
        Ok(Ok(now)) => {
            // the listing went through without an error: a snapshot whose stored file was tampered with (and is still
            // there) must not have been dropped from it on the quiet - that is a read returning something else
            if let Fault::Flip(FileType::Snapshot, a, ..) | Fault::Truncate(FileType::Snapshot, a, _) | Fault::Extend(FileType::Snapshot, a, _) = f {
                if st.has(FileType::Snapshot, a) && !now.contains_key(a) {
                    out.push(("tampered-snapshot-silently-omitted".to_string(), format!("the snapshot listing succeeded without error and without snapshot {a}, whose stored file was modified")));
                }
            }
            for (id, (_, o)) in &now {
                let Ok(o) = o else { continue }; // failing is fine
                match t.baseline.get(id) {
                    Some(base) => {
                        if let Some(d) = diff_obs(base, o, CmpOpts::ALL).first() {
                            let what = if matches!(f, Fault::ReplaceBy(FileType::Pack, ..)) {
                                "C04/substituted-pack-served"
                            } else if matches!(f, Fault::ReplaceBy(..)) {
                                "C04/substituted-file-served"
                            } else {
                                "different-content-served"
                            };
                            out.push((what.to_string(), format!("snapshot {id} was read WITHOUT error but with different content: {d}")));
                        }
                    }
                    None => {
                        // a snapshot id that did not exist before can only appear if a file is served under a foreign id
                        out.push(("phantom-snapshot".to_string(), format!("snapshot {id} appeared")));
                    }
                }
            }
        }
    }
    // cat of the tampered file itself through the repository (index / snapshot files)
    if let Fault::ReplaceBy(tp, a, _) | Fault::Flip(tp, a, ..) | Fault::Truncate(tp, a, _) | Fault::Extend(tp, a, _) = f {
        if *tp != FileType::Pack {
            if let Ok(repo) = env.open() {
                if let Ok(Ok(got)) = catch(|| repo.cat_file(*tp, &a.to_hex())) {
                    let orig = decode_file(&rk, t.base.get(*tp, a).unwrap()).unwrap_or_default();
                    if got.as_ref() != orig.as_slice() {
                        let sig = if matches!(f, Fault::ReplaceBy(..)) { "C04/substituted-file-served" } else { "different-content-served:cat_file" };
                        out.push((sig.to_string(), format!("cat_file({} {a}) succeeded with content different from the original", ft_name(*tp))));
                    }
                }
            }
        }
    }
    out
}

/// a password: a random marker, often decorated with blanks that a sloppy reader would trim
fn gen_password(r: &mut Rng) -> String {
    let m = marker(r, "p");
    match r.below(8) {
        0 => format!("{m} "),
        1 => format!("{m}  \t"),
        2 => format!(" {m}"),
        3 => format!("{} {}", &m[..8], &m[8..]),
        4 => format!("{m}\u{a0}"),
        _ => m,
    }
}

/// the credentials for `pw` through one of the routes the library offers: directly, a password file (with the line
/// endings a file may have) or a password command; returns the route name for the evidence
fn credentials_for(r: &mut Rng, pw: &str, dir: &std::path::Path, n: &mut u64) -> Result<(Credentials, &'static str), String> {
    let route = r.below(4);
    if route <= 1 {
        return Ok((Credentials::password(pw), "direct"));
    }
    *n += 1;
    let path = dir.join(format!("pw{n}"));
    let (ending, name): (&str, &'static str) = *r.pick(&[("\n", "file:lf"), ("\r\n", "file:crlf"), ("", "file:no-eol"), ("\nsecond line\n", "file:two-lines")]);
    std::fs::write(&path, format!("{pw}{ending}")).map_err(|e| e.to_string())?;
    let opts = if route == 2 {
        rustic_core::CredentialOptions::default().password_file(path)
    } else {
        let cmd: rustic_core::CommandInput = format!("cat {}", path.display()).parse().map_err(|e| format!("{e:?}"))?;
        rustic_core::CredentialOptions::default().password_command(cmd)
    };
    let c = opts.credentials().map_err(|e| errstr(&e))?.ok_or_else(|| "no credentials".to_string())?;
    Ok((c, if route == 2 { name } else { "command" }))
}

/// (d) key management against a set model
fn key_history(_ctx: &Ctx, case: u64, r: &mut Rng, rep: &mut Report) {
    let uni = Universe::new(1);
    let pw0 = gen_password(r);
    let tmp = tempfile::tempdir().expect("tempdir");
    let mut nfile = 0u64;
    let repo = match new_repo(uni.backend(0), None).and_then(|x| x.init(&Credentials::password(&pw0), &KeyOptions::default(), &ConfigOptions::default())) {
        Ok(x) => x,
        Err(e) => {
            rep.violation(case, "init-with-password", errstr(&e), json!({}));
            return;
        }
    };
    let master = repo.key();
    let mut model: BTreeMap<String, KeyId> = BTreeMap::new();
    let _ = model.insert(pw0.clone(), repo.key_id().expect("key id"));
    drop(repo);
    let mut all_pw = vec![pw0.clone()];
    let mut trace = Vec::new();
    let steps = r.range(4, 9);
    for _ in 0..steps {
        let detail = json!({"trace": trace});
        rep.evaluations += 1;
        match r.below(6) {
            0 | 1 if model.len() < 4 => {
                let pw = gen_password(r);
                trace.push("add_key".to_string());
                let (known_pw, _) = model.iter().next().map(|(a, b)| (a.clone(), *b)).unwrap();
                match new_repo(uni.backend(0), None).and_then(|x| x.open(&Credentials::password(&known_pw))).and_then(|x| x.add_key(&pw, &KeyOptions::default())) {
                    Ok(id) => {
                        let _ = model.insert(pw.clone(), id);
                        all_pw.push(pw);
                    }
                    Err(e) => rep.violation(case, "add-key-failed", errstr(&e), detail.clone()),
                }
            }
            2 if model.len() >= 2 => {
                // delete a key that is not the one used to open
                let pws: Vec<String> = model.keys().cloned().collect();
                let open_with = pws[0].clone();
                let victim = pws[1].clone();
                trace.push("delete_key".to_string());
                match new_repo(uni.backend(0), None).and_then(|x| x.open(&Credentials::password(&open_with))).and_then(|x| x.delete_key(&model[&victim])) {
                    Ok(()) => {
                        let _ = model.remove(&victim);
                    }
                    Err(e) => rep.violation(case, "delete-key-failed", errstr(&e), detail.clone()),
                }
            }
            3 => {
                // wrong passwords: removed ones, near misses, empty
                let some_valid = model.keys().next().cloned().unwrap_or_default();
                let wrong = match r.below(9) {
                    0 => String::new(),
                    1 => format!("{}x", all_pw[0]),
                    2 => all_pw.iter().find(|p| !model.contains_key(*p)).cloned().unwrap_or_else(|| "nope".to_string()),
                    3 => format!("{some_valid} "),
                    4 => format!("{some_valid}\t"),
                    5 => format!(" {some_valid}"),
                    6 => some_valid.trim().to_string(),
                    7 => some_valid.trim_end().to_string(),
                    _ => marker(r, "w"),
                };
                if model.contains_key(&wrong) {
                    continue;
                }
                let (cred, route) = match credentials_for(r, &wrong, tmp.path(), &mut nfile) {
                    Ok(x) => x,
                    Err(e) => {
                        rep.set_add("credential_source_errors", e.chars().take(80).collect::<String>());
                        continue;
                    }
                };
                trace.push("open(wrong)".to_string());
                rep.set_add("password_routes", route.to_string());
                if new_repo(uni.backend(0), None).and_then(|x| x.open(&cred)).is_ok() {
                    rep.violation(case, "wrong-password-opens", format!("password {wrong:?} (given via {route}) is not (or no longer) a key of the repository but opens it"), detail.clone());
                }
            }
            4 => {
                trace.push("open(masterkey)".to_string());
                if let Err(e) = new_repo(uni.backend(0), None).and_then(|x| x.open(&Credentials::Masterkey(master.clone()))) {
                    rep.violation(case, "master-key-rejected", errstr(&e), detail.clone());
                }
                if let Ok(repo) = new_repo(uni.backend(0), None).and_then(|x| x.open(&Credentials::Masterkey(MasterKey::new()))) {
                    // opening "succeeds" only if the config decrypts
                    let _ = repo;
                    rep.violation(case, "wrong-master-key-opens", "a random master key opens the repository".to_string(), detail.clone());
                }
            }
            _ => {
                // every password of the model opens, and yields the same master key
                for pw in model.keys() {
                    trace.push("open(valid)".to_string());
                    let (cred, route) = match credentials_for(r, pw, tmp.path(), &mut nfile) {
                        Ok(x) => x,
                        Err(e) => {
                            rep.violation(case, "valid-password-source-failed", format!("password {pw:?}: {e}"), detail.clone());
                            continue;
                        }
                    };
                    rep.set_add("password_routes", route.to_string());
                    match new_repo(uni.backend(0), None).and_then(|x| x.open(&cred)) {
                        Err(e) => rep.violation(case, "valid-password-rejected", format!("password {pw:?} (given via {route}): {}", errstr(&e)), detail.clone()),
                        Ok(repo) => {
                            let k = repo.key();
                            if k.encrypt != master.encrypt || k.mac.k != master.mac.k || k.mac.r != master.mac.r {
                                rep.violation(case, "different-master-key", "a valid password yields another master key".to_string(), detail.clone());
                            }
                        }
                    }
                }
            }
        }
    }
    // tampered key files never yield a key
    let st = uni.state(0);
    for id in st.ids(FileType::Key) {
        let orig = st.get(FileType::Key, &id).unwrap().to_vec();
        // flip a bit inside the base64 of "data" (find the field)
        if let Some(pos) = orig.windows(7).position(|w| w == b"\"data\":") {
            let p = pos + 12 + r.usize_below(40);
            let mut t = orig.clone();
            if p < t.len() && t[p].is_ascii_alphanumeric() {
                t[p] = if t[p] == b'A' { b'B' } else { b'A' };
                let u2 = Universe::from_states(vec![st.clone()]);
                {
                    let mut g = u2.lock();
                    // only this (tampered) key file remains
                    let keys: Vec<_> = g.stores[0].ids(FileType::Key);
                    for k in keys {
                        let _ = g.stores[0].del(FileType::Key, &k);
                    }
                    let _ = g.stores[0].put(FileType::Key, &id, t.into());
                }
                rep.evaluations += 1;
                for pw in model.keys() {
                    if let Ok(Ok(_)) = catch(|| new_repo(u2.backend(0), None).and_then(|x| x.open(&Credentials::password(pw)))) {
                        rep.violation(case, "tampered-key-file-accepted", format!("key file {id} with one modified base64 character still opens the repository"), json!({"trace": trace}));
                    }
                }
            }
        }
        // the password never appears in the key file
        for pw in &all_pw {
            if contains(&orig, pw.as_bytes()) {
                rep.violation(case, "plaintext-leak:key:password", "a password appears in a key file".to_string(), json!({}));
            }
        }
        for (what, s) in [("encrypt", &master.encrypt), ("mac.k", &master.mac.k), ("mac.r", &master.mac.r)] {
            if contains(&orig, s) {
                rep.violation(case, "plaintext-leak:key:master", format!("raw master key part {what} appears in a key file"), json!({}));
            }
        }
    }
    rep.class(format!("keys/{}", trace.iter().cloned().collect::<BTreeSet<_>>().into_iter().collect::<Vec<_>>().join("+")));
    if case % 3 == 0 {
        rep.sample(json!({"kind": "key history", "trace": trace, "keys_at_end": model.len()}));
    }
}

pub fn run(ctx: &Ctx) -> (Report, Meta) {
    let full = ctx.tier == Tier::Thorough;
    let mut rep = run_cases(ctx, ctx.tier.pick(24, 800), &scan_history);
    let mut c2 = ctx.clone();
    c2.seed ^= 0xc4b;
    rep.merge({ let mut cb = c2.clone(); cb.case_base = 100_000; run_cases(&cb, ctx.tier.pick(16, 64), &|c, i, r, rep| crypto_case(c, i + 100_000, r, rep, ctx.tier.pick(1500, 20_000))) });
    // tamper matrix
    let mut targets: Vec<Arc<TamperTarget>> = Vec::new();
    for i in 0..ctx.tier.pick(4u64, 40) {
        let mut r = Rng::new(ctx.seed).fork(0xc04 + i);
        match build_tamper_target(&mut r, full, i) {
            Ok(t) => targets.push(Arc::new(t)),
            Err(e) => rep.inconclusive(format!("tamper target {i}: {e}")),
        }
    }
    let mut jobs: Vec<(usize, usize)> = Vec::new();
    for (ti, t) in targets.iter().enumerate() {
        for fi in 0..t.faults.len() {
            jobs.push((ti, fi));
        }
    }
    rep.count("tamper_faults_enumerated", jobs.len() as u64);
    let mut c3 = ctx.clone();
    c3.seed ^= 0x7a3;
    c3.case_base = 200_000;
    let res = run_cases(&c3, jobs.len() as u64, &|_c, i, r, rep| {
        let (ti, fi) = jobs[i as usize];
        let t = &targets[ti];
        let f = &t.faults[fi];
        rep.evaluations += 1;
        let probs = tamper_eval(t, f, r);
        rep.class(format!("tamper/{}", f.kind()));
        let mut seen = BTreeSet::new();
        for (sig, d) in probs {
            if seen.insert(sig.clone()) {
                rep.violation(200_000 + i, sig, format!("{}: {d}", f.desc()), json!({"repository": t.desc, "fault": f.desc(), "equal_layout_packs": t.equal_layout}));
            }
        }
    });
    rep.merge(res);
    // keys (scrypt at recommended parameters: ~0.1-0.3 s per derivation)
    let mut c4 = ctx.clone();
    c4.seed ^= 0x6e7;
    rep.merge({ let mut cb = c4.clone(); cb.case_base = 300_000; run_cases(&cb, ctx.tier.pick(4, 60), &|c, i, r, rep| key_history(c, i + 300_000, r, rep)) });
    let meta = Meta {
        level: "exploration",
        rule: "(a) storage scan after each step of backup/forget/prune/config histories with 16-byte random markers embedded in file contents (incl. a highly compressible file), names, link targets, tags, host name, label, description: no marker and no master-key bytes in any stored file, no non-key file parses as JSON / starts with a zstd frame, every file / blob region / pack trailer authenticates under the master key with the harness's own AES-CTR+Poly1305-AES; (b) all nonces of all stored messages of a history pairwise distinct, plus high-volume H2 runs (equal and random plaintexts of 0..70000 bytes): distinct nonces, independent decryption agrees, bit flip / truncation / extension / wrong key rejected, file and blob codecs round-trip; (c) tamper matrix = C05's file faults (remove, truncations, structural bit flips, extension, sibling replacement) with the oracle 'every read either fails or returns exactly the original content'; (d) key histories (add/delete/open with valid, removed, near-miss, empty passwords - passwords with leading/trailing/inner blanks included, given directly, through a password file with LF/CRLF/no line ending/second line, or through a password command - and right/wrong master key) against a set model, tampered key files. distinct_nontrivial = distinct class labels (scan config classes, crypto, tamper kinds, key traces)".to_string(),
        exhaustive: false,
        assumptions: vec![
            "strength of AES / Poly1305 / scrypt and side channels are out of reach; 'for all keys' is sampled".to_string(),
            "key files are plaintext JSON by design and may carry host/user names; they are scanned for passwords, master-key bytes and content markers only".to_string(),
        ],
    };
    (rep, meta)
}
