//! C09 Retention decisions follow the documented keep rules

use std::collections::{BTreeMap, BTreeSet};

use rustic_core::{
    KeepOptions, StringList,
    jiff::{Span, Timestamp, Zoned, tz::Offset, tz::TimeZone},
    repofile::{DeleteOption, SnapshotFile},
};
use serde_json::json;

use crate::{
    evidence::{Ctx, Meta, Report, catch, panic_sig, run_cases},
    rawrepo::sha_id,
    rng::Rng,
};

// ---------------------------------------------------------------------------------------------
// own civil-time arithmetic (Hinnant's algorithms), independent of jiff

pub fn days_from_civil(y: i64, m: i64, d: i64) -> i64 {
    let y = if m <= 2 { y - 1 } else { y };
    let era = if y >= 0 { y } else { y - 399 } / 400;
    let yoe = y - era * 400;
    let doy = (153 * (if m > 2 { m - 3 } else { m + 9 }) + 2) / 5 + d - 1;
    let doe = yoe * 365 + yoe / 4 - yoe / 100 + doy;
    era * 146_097 + doe - 719_468
}

pub fn civil_from_days(z: i64) -> (i64, i64, i64) {
    let z = z + 719_468;
    let era = if z >= 0 { z } else { z - 146_096 } / 146_097;
    let doe = z - era * 146_097;
    let yoe = (doe - doe / 1460 + doe / 36_524 - doe / 146_096) / 365;
    let y = yoe + era * 400;
    let doy = doe - (365 * yoe + yoe / 4 - yoe / 100);
    let mp = (5 * doy + 2) / 153;
    let d = doy - (153 * mp + 2) / 5 + 1;
    let m = if mp < 10 { mp + 3 } else { mp - 9 };
    (if m <= 2 { y + 1 } else { y }, m, d)
}

#[derive(Clone, Copy, Debug, PartialEq, Eq, PartialOrd, Ord)]
pub struct Civil {
    pub y: i64,
    pub m: i64,
    pub d: i64,
    pub hh: i64,
    pub mm: i64,
    pub iso_year: i64,
    pub iso_week: i64,
}

fn is_leap(y: i64) -> bool {
    (y % 4 == 0 && y % 100 != 0) || y % 400 == 0
}

fn iso_weeks_in_year(y: i64) -> i64 {
    // a year has 53 ISO weeks iff Jan 1 is a Thursday, or it is a leap year and Jan 1 is a Wednesday
    let jan1 = days_from_civil(y, 1, 1);
    let wd = (jan1 + 3).rem_euclid(7) + 1; // Mon=1..Sun=7 (1970-01-01 was a Thursday)
    if wd == 4 || (is_leap(y) && wd == 3) { 53 } else { 52 }
}

pub fn civil(t: i64, offset: i64) -> Civil {
    let local = t + offset;
    let days = local.div_euclid(86_400);
    let sod = local.rem_euclid(86_400);
    let (y, m, d) = civil_from_days(days);
    let wd = (days + 3).rem_euclid(7) + 1;
    let doy = days - days_from_civil(y, 1, 1) + 1;
    let mut w = (doy - wd + 10) / 7;
    let mut iy = y;
    if w < 1 {
        iy = y - 1;
        w = iso_weeks_in_year(iy);
    } else if w > iso_weeks_in_year(y) {
        iy = y + 1;
        w = 1;
    }
    Civil { y, m, d, hh: sod / 3600, mm: (sod % 3600) / 60, iso_year: iy, iso_week: w }
}

#[derive(Clone, Copy, Debug, PartialEq, Eq, PartialOrd, Ord)]
pub enum Period {
    Minute,
    Hour,
    Day,
    Week,
    Month,
    Quarter,
    Half,
    Year,
}

pub const PERIODS: [Period; 8] = [Period::Minute, Period::Hour, Period::Day, Period::Week, Period::Month, Period::Quarter, Period::Half, Period::Year];

fn key(c: &Civil, p: Period) -> (i64, i64, i64, i64, i64) {
    match p {
        Period::Minute => (c.y, c.m, c.d, c.hh, c.mm),
        Period::Hour => (c.y, c.m, c.d, c.hh, 0),
        Period::Day => (c.y, c.m, c.d, 0, 0),
        Period::Week => (c.iso_year, c.iso_week, 0, 0, 0),
        Period::Month => (c.y, c.m, 0, 0, 0),
        Period::Quarter => (c.y, (c.m - 1) / 3, 0, 0, 0),
        Period::Half => (c.y, (c.m - 1) / 6, 0, 0, 0),
        Period::Year => (c.y, 0, 0, 0, 0),
    }
}

// ---------------------------------------------------------------------------------------------

#[derive(Clone, Debug, PartialEq, Eq)]
enum Mark {
    None,
    Never,
    After(i64),
}

#[derive(Clone, Debug)]
struct Snap {
    t: i64,
    tags: BTreeSet<String>,
    id_hex: String,
    mark: Mark,
}

#[derive(Clone, Debug, Default)]
struct Opts {
    last: Option<i32>,
    per: [Option<i32>; 8],
    within: Option<i64>,           // seconds
    within_per: [Option<i64>; 8],  // seconds
    tags: Vec<BTreeSet<String>>,
    ids: Vec<String>,
    none: bool,
}

/// reference decision. `marks_visible`: marked snapshots take part in "newest of its period"
/// (the two readings of the statement; without marks both coincide).
fn reference(snaps: &[Snap], o: &Opts, now: i64, offset: i64, marks_visible: bool) -> Vec<bool> {
    // order newest first (stable)
    let mut order: Vec<usize> = (0..snaps.len()).collect();
    order.sort_by(|a, b| snaps[*b].t.cmp(&snaps[*a].t));
    let latest = snaps[order[0]].t;
    let marked = |i: usize| match snaps[i].mark {
        Mark::None => false,
        Mark::Never => true,
        Mark::After(_) => true,
    };
    let mut keep = vec![false; snaps.len()];
    // eligible sequence for the period rules
    let seq: Vec<usize> = if marks_visible { order.clone() } else { order.iter().copied().filter(|i| !marked(*i)).collect() };
    let civ: BTreeMap<usize, Civil> = seq.iter().map(|i| (*i, civil(snaps[*i].t, offset))).collect();
    let oldest = seq.last().copied();
    // last N
    if let Some(n) = o.last {
        let mut cnt = 0i64;
        for i in order.iter().copied().filter(|i| !marked(*i)) {
            if n < 0 || cnt < i64::from(n) {
                keep[i] = true;
                cnt += 1;
            }
        }
    }
    if let Some(w) = o.within {
        for i in order.iter().copied().filter(|i| !marked(*i)) {
            if snaps[i].t + w > latest {
                keep[i] = true;
            }
        }
    }
    for (pi, p) in PERIODS.iter().enumerate() {
        // runs of equal period keys, newest first; the head of a run is the newest of its period
        let mut heads: Vec<usize> = Vec::new();
        let mut prev: Option<(i64, i64, i64, i64, i64)> = None;
        for i in &seq {
            let k = key(&civ[i], *p);
            if prev != Some(k) {
                heads.push(*i);
            }
            prev = Some(k);
        }
        if let Some(n) = o.per[pi] {
            if n != 0 {
                let mut used = 0i64;
                for h in &heads {
                    if marked(*h) {
                        continue; // decided by its own mark; does not use up a count
                    }
                    if n < 0 || used < i64::from(n) {
                        keep[*h] = true;
                        used += 1;
                    }
                }
                // the oldest snapshot while a counter remains
                if let Some(old) = oldest {
                    if !marked(old) && !heads.contains(&old) && (n < 0 || used < i64::from(n)) {
                        keep[old] = true;
                    }
                }
            }
        }
        if let Some(w) = o.within_per[pi] {
            for i in &seq {
                if marked(*i) {
                    continue;
                }
                let is_head = heads.contains(i) || Some(*i) == oldest;
                if is_head && snaps[*i].t + w > latest {
                    keep[*i] = true;
                }
            }
        }
    }
    for (i, s) in snaps.iter().enumerate() {
        if marked(i) {
            continue;
        }
        if o.ids.iter().any(|p| s.id_hex.starts_with(p)) {
            keep[i] = true;
        }
        if !o.tags.is_empty() && o.tags.iter().any(|t| t.is_subset(&s.tags)) {
            keep[i] = true;
        }
    }
    // own marks
    for (i, s) in snaps.iter().enumerate() {
        match s.mark {
            Mark::Never => keep[i] = true,
            Mark::After(t) => keep[i] = t >= now,
            Mark::None => {}
        }
    }
    let _ = o.none;
    keep
}

fn zoned(t: i64, offset: i64) -> Zoned {
    Timestamp::new(t, 0).unwrap().to_zoned(TimeZone::fixed(Offset::from_seconds(offset as i32).unwrap()))
}

fn to_lib_snap(s: &Snap, offset: i64) -> SnapshotFile {
    let mut sf = SnapshotFile::default();
    sf.time = zoned(s.t, offset);
    sf.id = s.id_hex.parse().unwrap();
    let mut tags = StringList::default();
    for t in &s.tags {
        tags.add(t.clone());
    }
    sf.tags = tags;
    sf.delete = match s.mark {
        Mark::None => DeleteOption::NotSet,
        Mark::Never => DeleteOption::Never,
        Mark::After(t) => DeleteOption::After(zoned(t, offset)),
    };
    sf
}

fn span_secs(s: i64) -> Span {
    // express in the largest fixed-length unit that divides it (hours / minutes / seconds)
    if s % 3600 == 0 {
        Span::new().hours(s / 3600)
    } else if s % 60 == 0 {
        Span::new().minutes(s / 60)
    } else {
        Span::new().seconds(s)
    }
}

fn to_lib_opts(o: &Opts) -> KeepOptions {
    let mut k = KeepOptions::default();
    k.keep_last = o.last;
    k.keep_minutely = o.per[0];
    k.keep_hourly = o.per[1];
    k.keep_daily = o.per[2];
    k.keep_weekly = o.per[3];
    k.keep_monthly = o.per[4];
    k.keep_quarter_yearly = o.per[5];
    k.keep_half_yearly = o.per[6];
    k.keep_yearly = o.per[7];
    k.keep_within = o.within.map(span_secs);
    k.keep_within_minutely = o.within_per[0].map(span_secs);
    k.keep_within_hourly = o.within_per[1].map(span_secs);
    k.keep_within_daily = o.within_per[2].map(span_secs);
    k.keep_within_weekly = o.within_per[3].map(span_secs);
    k.keep_within_monthly = o.within_per[4].map(span_secs);
    k.keep_within_quarter_yearly = o.within_per[5].map(span_secs);
    k.keep_within_half_yearly = o.within_per[6].map(span_secs);
    k.keep_within_yearly = o.within_per[7].map(span_secs);
    k.keep_tags = o
        .tags
        .iter()
        .map(|t| {
            let mut sl = StringList::default();
            for x in t {
                sl.add(x.clone());
            }
            sl
        })
        .collect();
    k.keep_ids = o.ids.clone();
    k.keep_none = o.none;
    k
}

fn opts_json(o: &Opts) -> serde_json::Value {
    json!({"last": o.last, "minutely..yearly": o.per, "within_s": o.within, "within_minutely..yearly_s": o.within_per, "tags": o.tags, "ids": o.ids, "none": o.none})
}

fn gen_times(r: &mut Rng, n: usize, offset: i64) -> (Vec<i64>, &'static str) {
    let unit_names = ["minute", "hour", "day", "isoweek", "month", "quarter", "halfyear", "year", "isoyear-edge"];
    let u = r.usize_below(unit_names.len());
    let y = r.irange(2014, 2027);
    // a boundary instant in local civil time
    let (by, bm, bd) = match u {
        4 => (y, r.irange(1, 12), 1),
        5 => (y, *r.pick(&[1i64, 4, 7, 10]), 1),
        6 => (y, *r.pick(&[1i64, 7]), 1),
        7 | 8 => (y, 1, 1),
        _ => (y, r.irange(1, 12), r.irange(1, 28)),
    };
    let mut base_days = days_from_civil(by, bm, bd);
    if u == 3 {
        // move to a Monday
        let wd = (base_days + 3).rem_euclid(7);
        base_days -= wd;
    }
    let mut base = base_days * 86_400 - offset;
    let step = match u {
        0 => {
            base += r.irange(0, 23) * 3600 + r.irange(0, 59) * 60;
            60
        }
        1 => {
            base += r.irange(0, 23) * 3600;
            3600
        }
        2 => 86_400,
        3 => 7 * 86_400,
        8 => 86_400, // days around new year: ISO week-year edges
        4 => 30 * 86_400,
        5 => 91 * 86_400,
        6 => 182 * 86_400,
        _ => 365 * 86_400,
    };
    let mut v = Vec::with_capacity(n);
    for _ in 0..n {
        let k = match u {
            8 => r.irange(-5, 5),
            _ => r.irange(-3, 3),
        };
        let jitter = match r.below(6) {
            0 => 0,
            1 => -1,
            2 => 1,
            3 => r.irange(-59, 59),
            4 => r.irange(-3599, 3599),
            _ => r.irange(-step / 2, step / 2),
        };
        v.push(base + k * step + jitter);
    }
    (v, unit_names[u])
}

fn gen_opts(r: &mut Rng, snaps: &[Snap], allow_tags: bool) -> Opts {
    let mut o = Opts::default();
    let cnt = |r: &mut Rng| -> Option<i32> { *r.pick(&[None, None, None, Some(0), Some(1), Some(2), Some(3), Some(7), Some(-1)]) };
    o.last = cnt(r);
    for i in 0..8 {
        o.per[i] = if r.chance(1, 3) { cnt(r) } else { None };
    }
    let span = |r: &mut Rng| -> i64 { *r.pick(&[60i64, 90 * 60, 5 * 3600, 36 * 3600, 3 * 86_400, 8 * 86_400, 40 * 86_400, 400 * 86_400, 1]) };
    if r.chance(1, 5) {
        o.within = Some(span(r));
    }
    for i in 0..8 {
        if r.chance(1, 10) {
            o.within_per[i] = Some(span(r));
        }
    }
    if allow_tags && r.chance(1, 4) {
        let n = r.range(1, 2);
        for _ in 0..n {
            let t: BTreeSet<String> = r.subset(&["a".to_string(), "b".to_string(), "c".to_string()], 1, 2).into_iter().collect();
            o.tags.push(t);
        }
    }
    if allow_tags && r.chance(1, 6) && !snaps.is_empty() {
        let s = r.pick(snaps);
        let l = r.range(1, 12) as usize;
        o.ids.push(s.id_hex[..l].to_string());
    }
    let any = o.last.is_some() || o.per.iter().any(Option::is_some) || o.within.is_some() || o.within_per.iter().any(Option::is_some) || !o.tags.is_empty() || !o.ids.is_empty();
    if !any {
        if r.chance(1, 2) {
            o.none = true;
        } else {
            o.per[r.usize_below(8)] = Some(*r.pick(&[1, 2, 5, -1]));
        }
    }
    o
}

fn lib_apply(snaps: &[Snap], o: &Opts, now: i64, offset: i64, order: &[usize]) -> Result<Result<BTreeMap<String, (bool, Vec<String>)>, String>, String> {
    let lib_snaps: Vec<SnapshotFile> = order.iter().map(|i| to_lib_snap(&snaps[*i], offset)).collect();
    let k = to_lib_opts(o);
    let nowz = zoned(now, offset);
    catch(move || match k.apply(lib_snaps, &nowz) {
        Err(e) => Err(crate::repo::errstr(&e)),
        Ok(v) => Ok(v.into_iter().map(|f| (f.snapshot.id.to_hex().to_string(), (f.keep, f.reasons))).collect()),
    })
}

fn one_case(_ctx: &Ctx, case: u64, r: &mut Rng, rep: &mut Report) {
    let offset = *r.pick(&[0i64, 0, 3600, -5 * 3600, 5 * 3600 + 1800, 12 * 3600, -11 * 3600]);
    let n = match r.below(4) {
        0 => r.range(1, 4),
        1 => r.range(5, 15),
        _ => r.range(10, 60),
    } as usize;
    let (mut times, cluster) = gen_times(r, n, offset);
    let with_marks = r.chance(1, 5);
    let with_tags = !with_marks && r.chance(1, 3);
    let with_dups = !with_marks && !with_tags && r.chance(1, 6);
    if !with_dups {
        times.sort_unstable();
        times.dedup();
    } else if times.len() > 2 {
        let a = times[0];
        times[1] = a;
    }
    let now = times.iter().max().unwrap() + r.irange(0, 86_400 * 30);
    let snaps: Vec<Snap> = times
        .iter()
        .enumerate()
        .map(|(i, t)| {
            let tags = if with_tags { r.subset(&["a".to_string(), "b".to_string(), "c".to_string()], 1, 3).into_iter().collect() } else { BTreeSet::new() };
            let mark = if with_marks && r.chance(1, 4) {
                match r.below(3) {
                    0 => Mark::Never,
                    1 => Mark::After(now - r.irange(1, 1_000_000)),
                    _ => Mark::After(now + r.irange(0, 1_000_000)),
                }
            } else {
                Mark::None
            };
            Snap { t: *t, tags, id_hex: sha_id(format!("{case}-{i}").as_bytes()).to_hex().to_string(), mark }
        })
        .collect();
    let o = gen_opts(r, &snaps, with_tags);
    let order: Vec<usize> = (0..snaps.len()).collect();
    rep.evaluations += 1;
    let detail = || json!({"offset": offset, "cluster": cluster, "times": snaps.iter().map(|s| s.t).collect::<Vec<_>>(), "marks": snaps.iter().map(|s| format!("{:?}", s.mark)).collect::<Vec<_>>(), "opts": opts_json(&o), "now": now});
    let lib = match lib_apply(&snaps, &o, now, offset, &order) {
        Err(p) => {
            rep.violation(case, format!("panic:{}", panic_sig(&p)), format!("KeepOptions::apply panicked: {p}"), detail());
            return;
        }
        Ok(Err(e)) => {
            rep.violation(case, "apply-error", format!("KeepOptions::apply refused valid options: {e}"), detail());
            return;
        }
        Ok(Ok(m)) => m,
    };
    // delete-unchanged (an option that removes snapshots whose tree equals the next older one's) never overrides a
    // snapshot's own mark: with it switched on and runs of equal trees, delete-never snapshots stay, delete-after
    // snapshots stay exactly until their time has passed
    if with_marks {
        let lib_snaps: Vec<SnapshotFile> = snaps
            .iter()
            .enumerate()
            .map(|(i, s)| {
                let mut sf = to_lib_snap(s, offset);
                // runs of three equal trees
                sf.tree = sha_id(format!("tree-{}", i / 3).as_bytes()).into();
                sf
            })
            .collect();
        let mut k = to_lib_opts(&o);
        k.delete_unchanged = true;
        let nowz = zoned(now, offset);
        rep.count("delete_unchanged_probes", 1);
        match catch(move || k.apply(lib_snaps, &nowz).map_err(|e| crate::repo::errstr(&e))) {
            Err(p) => rep.violation(case, format!("panic:{}", panic_sig(&p)), format!("KeepOptions::apply (delete_unchanged) panicked: {p}"), detail()),
            Ok(Err(_)) => {}
            Ok(Ok(v)) => {
                for f in v {
                    let hex = f.snapshot.id.to_hex().to_string();
                    let Some(sn) = snaps.iter().find(|s| s.id_hex == hex) else { continue };
                    let expect = match sn.mark {
                        Mark::Never => Some(true),
                        Mark::After(t) => Some(t >= now),
                        Mark::None => None,
                    };
                    if let Some(e) = expect {
                        if f.keep != e {
                            rep.violation(case, "mark-overridden-by-delete-unchanged", format!("snapshot at {} carries {:?} and now={now}: expected keep={e}, got keep={} with reasons {:?} (delete_unchanged on)", sn.t, sn.mark, f.keep, f.reasons), detail());
                            break;
                        }
                    }
                }
            }
        }
    }
    let ref_vis = reference(&snaps, &o, now, offset, true);
    let ref_invis = reference(&snaps, &o, now, offset, false);
    let libkeep: Vec<bool> = snaps.iter().map(|s| lib.get(&s.id_hex).is_some_and(|x| x.0)).collect();
    // compare
    let mismatch2 = |refk: &[bool], libk: &[bool]| -> Option<usize> {
        if with_dups {
            // per-timestamp counts
            let mut a: BTreeMap<i64, i64> = BTreeMap::new();
            for (i, s) in snaps.iter().enumerate() {
                *a.entry(s.t).or_default() += i64::from(refk[i]) - i64::from(libk[i]);
            }
            a.iter().find(|(_, v)| **v != 0).and_then(|(t, _)| snaps.iter().position(|s| s.t == *t))
        } else {
            (0..snaps.len()).find(|i| refk[*i] != libk[*i])
        }
    };
    let mismatch = |refk: &[bool]| -> Option<usize> { mismatch2(refk, &libkeep) };
    let m = mismatch(&ref_vis).and_then(|i| mismatch(&ref_invis).map(|_| i));
    if let Some(i) = m {
        // attribute: which period rules are in play and is the disagreement explained by the known wrong predicates?
        let c = civil(snaps[i].t, offset);
        let which: Vec<&str> = {
            let mut w = Vec::new();
            if o.per[0].is_some_and(|n| n != 0) || o.within_per[0].is_some() {
                w.push("minutely");
            }
            if o.per[3].is_some_and(|n| n != 0) || o.within_per[3].is_some() {
                w.push("weekly");
            }
            w
        };
        let reasons = lib.get(&snaps[i].id_hex).map(|x| x.1.clone()).unwrap_or_default();
        // re-evaluate with the suspected rules switched off to attribute precisely
        let mut o2 = o.clone();
        o2.per[0] = None;
        o2.within_per[0] = None;
        let mut o3 = o.clone();
        o3.per[3] = None;
        o3.within_per[3] = None;
        let agree_without = |ox: &Opts| -> bool {
            match lib_apply(&snaps, ox, now, offset, &order) {
                Ok(Ok(l)) => {
                    let any = ox.last.is_some() || ox.per.iter().any(Option::is_some) || ox.within.is_some() || ox.within_per.iter().any(Option::is_some) || !ox.tags.is_empty() || !ox.ids.is_empty() || ox.none;
                    if !any {
                        return true;
                    }
                    let lk: Vec<bool> = snaps.iter().map(|s| l.get(&s.id_hex).is_some_and(|x| x.0)).collect();
                    mismatch2(&reference(&snaps, ox, now, offset, true), &lk).is_none() || mismatch2(&reference(&snaps, ox, now, offset, false), &lk).is_none()
                }
                Ok(Err(_)) => true, // no option left: nothing to compare
                Err(_) => false,
            }
        };
        let sig = if which.contains(&"minutely") && agree_without(&o2) {
            "C09/minutely-predicate"
        } else if which.contains(&"weekly") && agree_without(&o3) {
            "C09/weekly-predicate"
        } else {
            "keep-decision"
        };
        rep.violation(
            case,
            sig,
            format!(
                "snapshot at t={} ({}-{:02}-{:02} {:02}:{:02} local, ISO {}-W{:02}) keep: library={} reference={} (library reasons {reasons:?})",
                snaps[i].t, c.y, c.m, c.d, c.hh, c.mm, c.iso_year, c.iso_week, libkeep[i], ref_vis[i]
            ),
            detail(),
        );
    } else {
        rep.count("decisions_equal_to_reference", snaps.len() as u64);
    }
    // marks: own protection / removal
    for (i, s) in snaps.iter().enumerate() {
        match s.mark {
            Mark::Never if !libkeep[i] => rep.violation(case, "delete-never-removed", "a delete-never snapshot was not kept".to_string(), detail()),
            Mark::After(t) if t < now && libkeep[i] => rep.violation(case, "delete-after-passed-kept", "a snapshot whose delete-after time has passed was kept".to_string(), detail()),
            Mark::After(t) if t >= now && !libkeep[i] => rep.violation(case, "delete-after-future-removed", "a snapshot protected by delete-after in the future was removed".to_string(), detail()),
            _ => {}
        }
    }
    // metamorphic: raising one count never removes a kept snapshot
    if !with_dups {
        let mut o2 = o.clone();
        let slot = r.usize_below(9);
        let bump = |x: &mut Option<i32>, r: &mut Rng| {
            *x = match *x {
                None => Some(1),
                Some(-1) => Some(-1),
                Some(n) => {
                    if r.chance(1, 4) { Some(-1) } else { Some(n + 1 + r.below(3) as i32) }
                }
            }
        };
        if slot == 8 { bump(&mut o2.last, r) } else { bump(&mut o2.per[slot], r) }
        rep.evaluations += 1;
        if let Ok(Ok(l2)) = lib_apply(&snaps, &o2, now, offset, &order) {
            for (i, s) in snaps.iter().enumerate() {
                if libkeep[i] && !l2.get(&s.id_hex).is_some_and(|x| x.0) {
                    let sig = if o.per[0].is_some_and(|n| n != 0) || o2.per[0].is_some_and(|n| n != 0) {
                        "C09/minutely-predicate"
                    } else if o.per[3].is_some_and(|n| n != 0) || o2.per[3].is_some_and(|n| n != 0) {
                        "C09/weekly-predicate"
                    } else {
                        "monotonicity"
                    };
                    // only report as the known predicate problem if the reference itself is monotone here
                    let r1 = reference(&snaps, &o, now, offset, true);
                    let r2 = reference(&snaps, &o2, now, offset, true);
                    let ref_mono = (0..snaps.len()).all(|j| !r1[j] || r2[j]);
                    rep.violation(
                        case,
                        if ref_mono { sig } else { "monotonicity-reference-too" },
                        format!("raising a keep count removed a snapshot that was kept before (t={})", s.t),
                        json!({"before": opts_json(&o), "after": opts_json(&o2), "case": detail()}),
                    );
                    break;
                }
            }
        }
        // permutation invariance
        let mut perm = order.clone();
        r.shuffle(&mut perm);
        rep.evaluations += 1;
        if let Ok(Ok(l3)) = lib_apply(&snaps, &o, now, offset, &perm) {
            if snaps.iter().any(|s| l3.get(&s.id_hex).map(|x| x.0) != lib.get(&s.id_hex).map(|x| x.0)) {
                rep.violation(case, "order-dependent", "decisions depend on the input order of the snapshots".to_string(), detail());
            }
        }
    }
    // non-trivial: at least one period boundary between neighbouring snapshots and a period rule active
    let active: Vec<String> = PERIODS.iter().enumerate().filter(|(i, _)| o.per[*i].is_some_and(|n| n != 0) || o.within_per[*i].is_some()).map(|(_, p)| format!("{p:?}")).collect();
    if snaps.len() >= 2 && !active.is_empty() {
        rep.class(format!("{cluster}/{}/{}", active.join("+"), if with_marks { "marks" } else if with_tags { "tags" } else if with_dups { "dups" } else { "plain" }));
    }
    if case % 4999 == 0 {
        rep.sample(json!({"case": detail(), "library_keep": libkeep}));
    }
}

pub fn run(ctx: &Ctx) -> (Report, Meta) {
    let n = ctx.tier.pick(500_000, 30_000_000);
    let rep = run_cases(ctx, n, &one_case);
    let meta = Meta {
        level: "exploration",
        rule: "case = multiset of 1-60 snapshot timestamps clustered within +-3 units (+ second/minute/hour jitter) of a minute/hour/day/ISO-week/month/quarter/half-year/year boundary or around new year (ISO week-year edges, 52/53-week years 2014-2027) in one fixed UTC offset x KeepOptions (each count in {unset,0,1,2,3,7,-1}, keep-within spans from 1 s to 400 d, tag sets, id prefixes, delete-never/after marks); oracle: keep flag of every snapshot == reference implementation of the stated rules (own civil/ISO-week arithmetic, set formulation), own marks honoured, raising a count never un-keeps, input order irrelevant. non-trivial = >= 2 snapshots and >= 1 period rule active; distinct = (cluster unit, active period rules, decoration)".to_string(),
        exhaustive: false,
        assumptions: vec![
            "exact comparison in groups sharing one fixed UTC offset (no DST zones); delete_unchanged stays off in the exact comparison (not a keep rule); switched on only for the probe that a snapshot's own mark still decides".to_string(),
            "with delete marks present, the library must agree with one of two readings of the statement (marked snapshots do / do not take part in 'newest of its period')".to_string(),
            "keep-within spans use fixed-length units (seconds/minutes/hours) so that 'counted back from the newest' is unambiguous".to_string(),
        ],
    };
    (rep, meta)
}
