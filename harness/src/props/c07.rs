//! C07 Identical content is stored once; unchanged data adds nothing

use std::{collections::BTreeSet, sync::Arc};

use rustic_core::{BackupOptions, FileType, Id, ParentOptions, repofile::SnapshotFile};
use serde_json::json;

use crate::{
    cfggen::{GenCfg, gen_config},
    evidence::{Ctx, Meta, Report, catch, panic_sig, run_cases},
    model::{ALL_EDITS, EditKind, Entry, Kind, ModelTree, NameClass, TreeParams, apply_edit, gen_tree, pk},
    observe::{CmpOpts, diff_model, observe_ls_dump},
    rawrepo::{IndexView, RawKey, index_view, reachable, sha_id},
    refimpl::{FastRef, WindowModel, fixed_chunks, rabin_chunks},
    repo::Fixture,
    rng::Rng,
    store::StoreState,
};

fn stored_set(view: &IndexView) -> BTreeSet<(String, Id)> {
    view.blobs.keys().cloned().collect()
}

/// ids of the chunks the reference chunker produces for `data`
fn ref_chunk_ids(cfg: &GenCfg, poly: u64, data: &[u8], model: WindowModel) -> Vec<Id> {
    let lens = if cfg.rabin {
        if model == WindowModel::Strict || cfg.min < 64 {
            FastRef::new(poly).chunks(data, cfg.avg, cfg.min.max(1), cfg.max)
        } else {
            rabin_chunks(data, poly, cfg.avg, cfg.min, cfg.max, model)
        }
    } else {
        fixed_chunks(data.len(), cfg.avg)
    };
    let mut out = Vec::with_capacity(lens.len());
    let mut pos = 0;
    for l in lens {
        out.push(sha_id(&data[pos..pos + l]));
        pos += l;
    }
    out
}

fn all_ref_ids(cfg: &GenCfg, poly: u64, m: &ModelTree, model: WindowModel) -> BTreeSet<Id> {
    let mut s = BTreeSet::new();
    for (_, b) in m.files() {
        s.extend(ref_chunk_ids(cfg, poly, b, model));
    }
    s
}

struct Step {
    snap: SnapshotFile,
    state: StoreState,
    view: IndexView,
}

fn snapshot_refs(rk: &RawKey, st: &StoreState, view: &IndexView, snap: &SnapshotFile) -> Result<BTreeSet<(String, Id)>, String> {
    let mut out = BTreeSet::new();
    let tree: Id = *snap.tree;
    reachable(rk, st, view, &tree, &mut out)?;
    Ok(out)
}

fn history(_ctx: &Ctx, case: u64, r: &mut Rng, rep: &mut Report) {
    let mut cfg = gen_config(r);
    while cfg.heavy_compression {
        cfg = gen_config(r);
    }
    let cap = (cfg.avg * 40).clamp(600, 60_000);
    let mut p = TreeParams::small(cfg.sizes(r, cap));
    p.max_entries = r.range(2, 10) as usize;
    p.name_classes = vec![NameClass::Ascii, NameClass::Utf8, NameClass::Escapes];
    p.symlinks = true;
    let mut model = gen_tree(r, &p);
    // one large multi-chunk file for shift-resilience edits
    let big_len = (cfg.max * 6 + r.usize_below(cfg.max + 1)).min(cap.max(cfg.max * 3));
    model.insert(pk("big.bin"), Entry { kind: Kind::File(Arc::new(r.bytes(big_len))), mode: 0o644, mtime: (1_650_000_000, 1), hardlink: None });
    let fx = match Fixture::create(&cfg, r) {
        Ok(f) => f,
        Err(e) => {
            rep.violation(case, "init-refused", e, json!({"config": cfg.desc}));
            return;
        }
    };
    let rk = fx.raw_key();
    let poly = match fx.open() {
        Ok(repo) => u64::from_str_radix(&repo.config().chunker_polynomial, 16).unwrap_or(0),
        Err(e) => {
            rep.violation(case, "open", e, json!({}));
            return;
        }
    };
    let detail = |extra: serde_json::Value| json!({"config": cfg.desc, "extra": extra});
    let no_parent = BackupOptions::default().parent_opts(ParentOptions::default().force(true));
    let mut steps: Vec<Step> = Vec::new();
    let n_steps = r.range(2, 5);
    let mut prev_model = model.clone();
    let mut edits_desc: Vec<String> = Vec::new();
    for step in 0..=n_steps {
        let mut this_edits = Vec::new();
        if step > 0 {
            let unchanged = r.chance(1, 4);
            if !unchanged {
                for _ in 0..r.range(1, 3) {
                    // bias towards in-file shifts on the big file
                    let kind = if r.chance(1, 2) {
                        r.pick(&[EditKind::InsertBytes, EditKind::DeleteBytes, EditKind::ModifySameSize, EditKind::DuplicateFile, EditKind::Rename]).clone()
                    } else {
                        r.pick(&ALL_EDITS).clone()
                    };
                    if let Some(d) = apply_edit(r, &mut model, &kind, &p) {
                        this_edits.push(d);
                    }
                }
            }
        }
        let before_state = fx.uni.state(0);
        let before_view = match index_view(&rk, &before_state) {
            Ok(v) => v,
            Err(e) => {
                rep.violation(case, "raw-index", e, detail(json!({"step": step})));
                return;
            }
        };
        let opts = if r.chance(1, 2) { BackupOptions::default() } else { no_parent.clone() };
        let snap = match fx.backup(&model, &opts, 1_700_000_000 + step as i64 * 100) {
            Ok(s) => s,
            Err(e) => {
                rep.violation(case, "backup-error", e, detail(json!({"step": step})));
                return;
            }
        };
        rep.evaluations += 1;
        let st = fx.uni.state(0);
        let view = match index_view(&rk, &st) {
            Ok(v) => v,
            Err(e) => {
                rep.violation(case, "raw-index", e, detail(json!({"step": step})));
                return;
            }
        };
        let before = stored_set(&before_view);
        let after = stored_set(&view);
        let newly: BTreeSet<_> = after.difference(&before).cloned().collect();
        // nothing disappears
        if let Some(gone) = before.difference(&after).next() {
            rep.violation(case, "blob-vanished", format!("{}:{} was indexed before the backup and is not afterwards", gone.0, gone.1), detail(json!({"step": step})));
        }
        // referenced set by raw parse
        let refs = match snapshot_refs(&rk, &st, &view, &snap) {
            Ok(x) => x,
            Err(e) => {
                rep.violation(case, "snapshot-unreadable-raw", format!("new snapshot cannot be walked through the raw index: {e}"), detail(json!({"step": step, "edits": this_edits})));
                return;
            }
        };
        let expected_new: BTreeSet<_> = refs.difference(&before).cloned().collect();
        if newly != expected_new {
            let missing: Vec<_> = expected_new.difference(&newly).take(3).map(|x| format!("{}:{}", x.0, x.1)).collect();
            let extra: Vec<_> = newly.difference(&expected_new).take(3).map(|x| format!("{}:{}", x.0, x.1)).collect();
            let sig = if !extra.is_empty() && missing.is_empty() { "uploaded-unreferenced-or-existing" } else { "not-uploaded" };
            rep.violation(
                case,
                sig,
                format!("newly stored blobs != (referenced by the new snapshot) minus (stored before): missing {missing:?}, extra {extra:?}"),
                detail(json!({"step": step, "edits": this_edits})),
            );
        }
        // re-upload of something that existed: a blob id stored before must not gain a location
        for (k, locs) in &view.blobs {
            if let Some(old) = before_view.blobs.get(k) {
                if locs.len() > old.len() {
                    rep.violation(case, "reuploaded-existing", format!("{}:{} existed before the backup and was stored again", k.0, k.1), detail(json!({"step": step, "edits": this_edits})));
                    break;
                }
            }
        }
        // in-run duplicates are an observation only (the property speaks about reloaded indexes)
        let in_run_dups = view.blobs.iter().filter(|(k, l)| !before.contains(*k) && l.len() > 1).count();
        rep.count("in_run_duplicate_blobs", in_run_dups as u64);
        // summary counters
        if let Some(sum) = &snap.summary {
            let nd = newly.iter().filter(|k| k.0 == "data").count() as u64 + 0;
            let nt = newly.iter().filter(|k| k.0 == "tree").count() as u64;
            let dup_d = view.blobs.iter().filter(|(k, l)| k.0 == "data" && !before.contains(*k) && l.len() > 1).map(|(_, l)| l.len() as u64 - 1).sum::<u64>();
            let dup_t = view.blobs.iter().filter(|(k, l)| k.0 == "tree" && !before.contains(*k) && l.len() > 1).map(|(_, l)| l.len() as u64 - 1).sum::<u64>();
            if sum.data_blobs != nd + dup_d || sum.tree_blobs != nt + dup_t {
                rep.violation(
                    case,
                    "summary-counters",
                    format!("summary says data_blobs={} tree_blobs={}, raw index shows {} (+{} dup) new data and {} (+{} dup) new tree blobs", sum.data_blobs, sum.tree_blobs, nd, dup_d, nt, dup_t),
                    detail(json!({"step": step})),
                );
            }
        }
        // unchanged source => nothing new at all
        if step > 0 && model == prev_model {
            let prev = steps.last().unwrap();
            rep.count("unchanged_rebackups", 1);
            if snap.tree != prev.snap.tree {
                rep.violation(case, "unchanged:tree-id", "unchanged source produced a different tree id".to_string(), detail(json!({"step": step})));
            }
            if st.ids(FileType::Pack) != prev.state.ids(FileType::Pack) {
                rep.violation(case, "unchanged:new-pack", "unchanged source added a pack file".to_string(), detail(json!({"step": step})));
            }
            if st.ids(FileType::Index) != prev.state.ids(FileType::Index) {
                rep.violation(case, "unchanged:new-index", "unchanged source added an index file".to_string(), detail(json!({"step": step})));
            }
            if let Some(sum) = &snap.summary {
                if sum.data_blobs != 0 || sum.tree_blobs != 0 || sum.data_added != 0 {
                    rep.violation(case, "unchanged:summary", format!("unchanged source but summary reports data_blobs={} tree_blobs={} data_added={}", sum.data_blobs, sum.tree_blobs, sum.data_added), detail(json!({"step": step})));
                }
            }
        }
        // shift resilience, exact form against the reference chunker
        if cfg.min >= 1 || !cfg.rabin {
            let strict_new: BTreeSet<Id> = all_ref_ids(&cfg, poly, &model, WindowModel::Strict);
            let actual_data: BTreeSet<Id> = refs.iter().filter(|k| k.0 == "data").map(|k| k.1).collect();
            if actual_data == strict_new {
                rep.count("steps_equal_to_strict_reference_chunking", 1);
            } else {
                let dev = all_ref_ids(&cfg, poly, &model, WindowModel::Prefill63);
                if actual_data == dev {
                    rep.count("steps_equal_to_prefill63_reference_chunking", 1);
                } else {
                    rep.violation(
                        case,
                        "chunks-not-reference",
                        "the data blobs the snapshot references are not the chunks of the reference chunker (neither strict nor the known 63-byte-prefill deviation)".to_string(),
                        detail(json!({"step": step, "n_actual": actual_data.len(), "n_ref": strict_new.len()})),
                    );
                }
            }
            // and therefore: the newly stored data blobs are exactly the reference chunks that were not there
            let new_data: BTreeSet<Id> = newly.iter().filter(|k| k.0 == "data").map(|k| k.1).collect();
            let before_data: BTreeSet<Id> = before.iter().filter(|k| k.0 == "data").map(|k| k.1).collect();
            let exp: BTreeSet<Id> = actual_data.difference(&before_data).copied().collect();
            if new_data != exp {
                rep.violation(case, "shift:new-data-set", "new data blobs != chunks of the new content that did not exist before".to_string(), detail(json!({"step": step, "edits": this_edits})));
            }
            rep.count("new_data_blobs", new_data.len() as u64);
            rep.count("referenced_data_blobs", actual_data.len() as u64);
        }
        // the snapshot reads back
        if step == n_steps || r.chance(1, 3) {
            match fx.full() {
                Err(e) => rep.violation(case, "reopen", e, detail(json!({"step": step}))),
                Ok(repo) => match observe_ls_dump(&repo, &snap, r, 2) {
                    Err(e) => rep.violation(case, "unreadable", format!("snapshot of step {step} cannot be read: {e}"), detail(json!({"step": step, "edits": this_edits}))),
                    Ok(obs) => {
                        let d = diff_model(&model, &obs, CmpOpts::ALL);
                        if let Some(x) = d.first() {
                            rep.violation(case, format!("content:{}", x.split(' ').next().unwrap_or("?")), format!("step {step}: {x}"), detail(json!({"step": step, "edits": this_edits})));
                        }
                    }
                },
            }
        }
        for e in &this_edits {
            let k = e.split(' ').next().unwrap_or("?").to_string();
            rep.set_add("edit_kinds", k.clone());
            if !newly.is_empty() {
                rep.class(format!("{}/{}", cfg.class, k));
            }
        }
        edits_desc.extend(this_edits);
        steps.push(Step { snap, state: st, view });
        prev_model = model.clone();
    }
    if case % 23 == 0 {
        rep.sample(json!({"config": cfg.desc, "steps": steps.len(), "edits": edits_desc.iter().take(8).collect::<Vec<_>>(), "indexed_blobs_at_end": steps.last().map(|s| s.view.blobs.len())}));
    }
}

pub fn run(ctx: &Ctx) -> (Report, Meta) {
    let n = ctx.tier.pick(160, 5000);
    let rep = run_cases(ctx, n, &|c, i, r, rep| {
        if let Err(p) = catch(|| history(c, i, r, rep)) {
            rep.violation(i, format!("panic:{}", panic_sig(&p)), format!("panic in backup history: {p}"), json!({}));
        }
    });
    let meta = Meta {
        level: "exploration",
        rule: "case = history of 3-6 backups of an evolving generated source (edit scripts: insert/delete/overwrite bytes at random offsets of a multi-chunk file, add/remove/rename/duplicate/touch/chmod/type change) on a generated configuration, index reloaded between runs, with and without parent; oracles per step from the RAW index files (independent parser): newly stored (type,id) == referenced-by-new-snapshot minus stored-before; nothing re-uploaded; unchanged source adds no pack/index and keeps the tree id; summary counters == raw counts; referenced data blobs == chunks of an independent reference chunker. non-trivial = step that stored at least one new blob; distinct = (config class, edit kind)".to_string(),
        exhaustive: false,
        assumptions: vec![
            "in-run duplicate storage of one blob (same run, two files) is counted, not judged: the property speaks about sharing once the index has been reloaded".to_string(),
            "reference chunker falls back to the documented 63-byte-prefill deviation (known finding C06/window63) before declaring a mismatch".to_string(),
        ],
    };
    (rep, meta)
}
