//! C01 Backup followed by restore reproduces the source exactly

use std::sync::Arc;

use rustic_core::{BackupOptions, RestoreOptions, repofile::MasterKey};
use serde_json::json;

use crate::{
    cfggen::{GenCfg, gen_config},
    evidence::{Ctx, Meta, Report, catch, panic_sig, run_cases},
    model::{Entry, Frag, Kind, ModelTree, NAME_CLASSES, TreeParams, gen_tree, pk},
    observe::{CmpOpts, diff_hardlinks, diff_model, observe_disk, observe_ls_dump, restore_to},
    rawrepo::{RawKey, index_view},
    repo::{self, backup_dir, backup_model, check_full, snap_at},
    rng::Rng,
    store::Universe,
};

/// serialized tree blobs currently stored (raw parse), used to craft colliding file contents
pub fn stored_tree_blobs(uni: &Universe, key: &MasterKey) -> Vec<Vec<u8>> {
    let rk = RawKey::from_master(key);
    let st = uni.state(0);
    let Ok(view) = index_view(&rk, &st) else { return Vec::new() };
    let mut v = Vec::new();
    for ((tpe, id), _) in &view.blobs {
        if tpe == "tree" {
            if let Ok(b) = crate::rawrepo::read_blob(&rk, &st, &view, "tree", id) {
                v.push(b);
            }
        }
    }
    v
}

pub struct Outcome {
    pub problems: Vec<(String, String)>, // (signature, description)
    pub multi_chunk: bool,
    pub n_packs: usize,
    pub notes: Vec<String>,
}

/// full C01 pipeline for one (config, model) on a fresh repository
pub fn roundtrip(ctx: &Ctx, case: u64, r: &mut Rng, cfg: &GenCfg, model: &ModelTree, on_disk: bool, frag: Frag) -> Outcome {
    let mut out = Outcome { problems: Vec::new(), multi_chunk: false, n_packs: 0, notes: Vec::new() };
    let t0 = std::time::Instant::now();
    let timing = std::env::var("VERIF_TIMING").is_ok();
    let tick = |what: &str| {
        if timing {
            eprintln!("  [timing] {what}: {:.3}s", t0.elapsed().as_secs_f64());
        }
    };
    if timing {
        eprintln!("  [timing] config {} entries {} bytes {}", cfg.desc, model.entries.len(), model.total_bytes());
    }
    let uni = Universe::new(1);
    let key = MasterKey::new();
    let repo = match cfg.create(uni.backend(0), &key, r) {
        Ok(r) => r,
        Err(e) => {
            out.problems.push(("init-refused".into(), format!("init refused generated config: {}", repo::errstr(&e))));
            return out;
        }
    };
    let repo = match repo.to_indexed_ids() {
        Ok(r) => r,
        Err(e) => {
            out.problems.push(("index".into(), format!("to_indexed_ids: {}", repo::errstr(&e))));
            return out;
        }
    };
    let dir = on_disk.then(|| ctx.case_dir(case));
    let snap = if let Some(d) = &dir {
        let src = d.join("src");
        std::fs::create_dir_all(&src).unwrap();
        model.write_to_disk(&src).expect("write model to disk");
        backup_dir(&repo, &src, &BackupOptions::default(), snap_at(1_700_000_000, "h"))
    } else {
        // one synthetic source in three looks like a tree that spans file systems and was recorded without device
        // ids: every file has a link count of 2 and they all share one inode number, though they are different files
        if r.chance(1, 3) {
            let root = std::path::PathBuf::from(crate::repo::ROOT);
            let mut src = model.synth_source(&root, frag);
            for e in &mut src.entries {
                if e.data.is_some() {
                    e.node.meta.links = 2;
                    e.node.meta.inode = 4711;
                    e.node.meta.device_id = 0;
                }
            }
            out.notes.push("shared-inode-without-device-id".to_string());
            repo.archive(&BackupOptions::default(), &src, snap_at(1_700_000_000, "h"), &[root])
        } else {
            backup_model(&repo, model, frag, &BackupOptions::default(), snap_at(1_700_000_000, "h"))
        }
    };
    let snap = match snap {
        Ok(s) => s,
        Err(e) => {
            out.problems.push(("backup-error".into(), format!("backup returned an error: {}", repo::errstr(&e))));
            if let Some(d) = dir {
                let _ = std::fs::remove_dir_all(d);
            }
            return out;
        }
    };
    drop(repo);
    tick("backup done");
    out.n_packs = uni.state(0).count(rustic_core::FileType::Pack);
    // fresh handle, fresh index
    let repo = match repo::open_uni(&uni, &key).and_then(rustic_core::Repository::to_indexed) {
        Ok(r) => r,
        Err(e) => {
            out.problems.push(("reopen".into(), format!("re-open / index after backup failed: {}", repo::errstr(&e))));
            return out;
        }
    };
    // path 1-3: ls + dump + ranged reads
    match observe_ls_dump(&repo, &snap, r, 8) {
        Err(e) => {
            let sig = if e.contains("not found in index") { "unreadable:not-in-index" } else if e.starts_with("RANGED") { "ranged-read-mismatch" } else { "unreadable" };
            out.problems.push((sig.into(), format!("reading the snapshot back failed: {e}")));
        }
        Ok(obs) => {
            // listing carries metadata as recorded; on disk dir mtimes are affected by content creation
            let d = diff_model(model, &obs, CmpOpts::ALL);
            for x in d.iter().take(5) {
                let kind = x.split(' ').next().unwrap_or("?");
                out.problems.push((format!("ls-dump:{kind}"), format!("ls/dump differs from source: {x}")));
            }
        }
    }
    tick("ls+dump done");
    // multi-chunk?
    if let Ok(root) = crate::observe::root_node(&repo, &snap) {
        if let Ok(ls) = repo.ls(&root, &rustic_core::LsOptions::default()) {
            for item in ls.flatten() {
                if item.1.content.as_ref().is_some_and(|c| c.len() >= 2) {
                    out.multi_chunk = true;
                }
            }
        }
    }
    // path 4: restore to disk
    let rdir = dir.clone().unwrap_or_else(|| ctx.case_dir(case));
    let dest = rdir.join("restored");
    let ropts = RestoreOptions::default();
    match restore_to(&repo, &snap, &dest, &ropts) {
        Err(e) => out.problems.push(("restore-error".into(), format!("restore failed: {e}"))),
        Ok(()) => match observe_disk(&dest) {
            Err(e) => out.problems.push(("restore-walk".into(), e)),
            Ok(obs) => {
                let d = diff_model(model, &obs, CmpOpts::ALL);
                for x in d.iter().take(5) {
                    let kind = x.split(' ').next().unwrap_or("?");
                    out.problems.push((format!("restore:{kind}"), format!("restored tree differs from source: {x}")));
                }
                if on_disk {
                    for x in diff_hardlinks(model, &obs) {
                        out.problems.push(("restore:HARDLINK".into(), x));
                    }
                }
            }
        },
    }
    // second restore over the first one after damaging part of a restored multi-chunk file (same size, other
    // mtime): blobs still matching are taken from the file, the others from the repository
    if out.problems.is_empty() {
        let victim = model.files().filter(|(_, b)| b.len() >= 2).max_by_key(|(_, b)| b.len()).map(|(k, b)| (k.clone(), b.clone()));
        if let Some((k, bytes)) = victim {
            let p = dest.join(crate::model::pk_to_path(&k));
            let mut v = bytes.as_ref().clone();
            let a = r.usize_below(v.len());
            let n = 1 + r.usize_below((v.len() - a).min(cfg.avg.max(1)));
            for x in &mut v[a..a + n] {
                *x ^= 0x5a;
            }
            use std::os::unix::fs::PermissionsExt;
            let _ = std::fs::set_permissions(&p, std::fs::Permissions::from_mode(0o600));
            if std::fs::write(&p, &v).is_ok() {
                let ft = filetime::FileTime::from_unix_time(1_111_111_111, 0);
                let _ = filetime::set_file_times(&p, ft, ft);
                match restore_to(&repo, &snap, &dest, &ropts) {
                    Err(e) => out.problems.push(("re-restore-error".into(), format!("second restore over a partly damaged first restore failed: {e}"))),
                    Ok(()) => {
                        if let Ok(obs) = observe_disk(&dest) {
                            for x in diff_model(model, &obs, CmpOpts::ALL).iter().take(3) {
                                let kind = x.split(' ').next().unwrap_or("?");
                                out.problems.push((format!("re-restore:{kind}"), format!("after restoring again over a partly damaged copy (bytes {a}..{} of {} changed): {x}", a + n, crate::model::pk_display(&k))));
                            }
                        }
                    }
                }
            }
        }
    }
    let _ = std::fs::remove_dir_all(&rdir);
    tick("restore done");
    // check
    match check_full(&repo) {
        Err(e) => out.problems.push(("check-error".into(), format!("check returned Err: {}", repo::errstr(&e)))),
        Ok(errs) => {
            for e in errs.iter().take(3) {
                out.problems.push(("check-reports".into(), format!("check reports an error on a fresh backup: {e}")));
            }
        }
    }
    tick("check done");
    out
}

fn gen_model(r: &mut Rng, cfg: &GenCfg, cap: usize, on_disk: bool) -> ModelTree {
    let mut p = TreeParams::small(cfg.sizes(r, cap));
    p.max_entries = if cfg.heavy_compression { 3 } else { r.range(1, 24) as usize };
    p.hardlinks = on_disk;
    p.special_bits = on_disk;
    p.name_classes = NAME_CLASSES.to_vec();
    // keep the number of blobs manageable for byte-sized chunkers
    if cfg.max <= 8 {
        p.sizes.retain(|s| *s <= 600);
    }
    let mut t = gen_tree(r, &p);
    // deep nesting
    if !cfg.heavy_compression && r.chance(1, 6) {
        let mut path = Vec::new();
        for i in 0..12 {
            path.push(format!("d{i}").into_bytes());
        }
        path.push(b"leaf".to_vec());
        t.insert(path, Entry { kind: Kind::File(Arc::new(r.bytes(10))), mode: 0o644, mtime: (1_650_000_000, 5), hardlink: None });
    }
    // empty dir
    if r.chance(1, 3) {
        t.insert(pk("emptydir"), Entry { kind: Kind::Dir, mode: 0o755, mtime: (1_650_000_001, 0), hardlink: None });
    }
    t
}

fn one_case(ctx: &Ctx, case: u64, r: &mut Rng, rep: &mut Report) {
    let cfg = gen_config(r);
    // every blob costs ~1 ms in the library's threaded pipeline: bound the number of chunks per file
    let cap = if cfg.heavy_compression { cfg.max * 2 + 10 } else { (cfg.avg * 60).clamp(600, ctx.tier.pick(40_000, 300_000)) };
    let variant = r.below(10);
    let on_disk = variant < 3;
    let mut model = gen_model(r, &cfg, cap, on_disk);
    let mut collide = "none";
    if (variant == 9 || variant == 8) && !cfg.heavy_compression {
        // content equal to a serialized directory listing: learn the tree bytes from a scratch backup
        let uni = Universe::new(1);
        let key = MasterKey::new();
        if let Ok(repo) = cfg.create(uni.backend(0), &key, r).and_then(rustic_core::Repository::to_indexed_ids) {
            // make sure there is a sub directory
            let mut m2 = model.clone();
            m2.insert(pk("mdir/inner"), Entry { kind: Kind::File(Arc::new(b"inner".to_vec())), mode: 0o644, mtime: (1_600_000_100, 0), hardlink: None });
            if backup_model(&repo, &m2, Frag::Whole, &BackupOptions::default(), snap_at(1_700_000_000, "h")).is_ok() {
                let trees = stored_tree_blobs(&uni, &key);
                // choose the serialized tree of a real sub directory (not the root / r tree): one that mentions "inner"
                if let Some(tb) = trees.iter().find(|t| t.windows(7).any(|w| w == b"\"inner\"")) {
                    let name = if variant == 9 { "a_collide" } else { "z_collide" };
                    m2.insert(pk(name), Entry { kind: Kind::File(Arc::new(tb.clone())), mode: 0o644, mtime: (1_600_000_200, 0), hardlink: None });
                    model = m2;
                    collide = if variant == 9 { "file-before-dir" } else { "file-after-dir" };
                }
            }
        }
    }
    let frag = match r.below(4) {
        0 => Frag::Whole,
        1 => Frag::Max(*r.pick(&[1usize, 3, 4095, 4096, 4097])),
        2 => Frag::Random(r.next_u64()),
        _ => Frag::RandomInterrupted(r.next_u64()),
    };
    let on_disk = on_disk && collide == "none";
    rep.evaluations += 1;
    let detail = json!({"config": cfg.desc, "entries": model.entries.len(), "bytes": model.total_bytes(), "on_disk": on_disk, "collide": collide, "frag": format!("{frag:?}")});
    let res = catch(|| roundtrip(ctx, case, r, &cfg, &model, on_disk, frag));
    match res {
        Err(p) => rep.violation(case, format!("panic:{}", panic_sig(&p)), format!("panic during backup/restore round trip: {p} [{}]", cfg.desc), detail),
        Ok(out) => {
            rep.count("packs_written", out.n_packs as u64);
            for n in &out.notes {
                rep.count(&format!("sources_{}", n.replace('-', "_")), 1);
            }
            let mut seen = std::collections::BTreeSet::new();
            for (sig, desc) in out.problems {
                let sig = if collide != "none" && (sig.starts_with("unreadable") || sig.starts_with("check") || sig.starts_with("restore-error")) {
                    format!("tree-data-id-collision:{sig}")
                } else {
                    sig
                };
                if seen.insert(sig.clone()) {
                    rep.violation(case, sig, format!("{desc} [{}; collide={collide}; on_disk={on_disk}]", cfg.desc), detail.clone());
                }
            }
            if out.multi_chunk || collide != "none" {
                let names = if model.entries.keys().any(|k| k.iter().any(|c| std::str::from_utf8(c).is_err())) {
                    "non-utf8"
                } else if model.entries.keys().any(|k| k.iter().any(|c| c.iter().any(|b| b"\\\"\n\r\t\x07\x08\x0b\x0c".contains(b)))) {
                    "escapes"
                } else {
                    "plain"
                };
                rep.class(format!("{}/{}/{}/{}", cfg.class, if on_disk { "disk" } else { "synth" }, names, collide));
            }
            if case % 37 == 0 {
                rep.sample(detail);
            }
        }
    }
}

pub fn run(ctx: &Ctx) -> (Report, Meta) {
    let n = ctx.tier.pick(500, 12_000);
    let rep = run_cases(ctx, n, &one_case);
    let meta = Meta {
        level: "exploration",
        rule: "case = generated repository configuration (version, compression, rabin/fixed chunker with small accepted parameters, data/tree pack sizes from one blob per pack up, extra_verify) x generated source tree (sizes at chunk/pack boundaries, 5 content classes, 6 name classes incl. invalid UTF-8 and every escaped byte, symlinks, hardlinks, deep and empty dirs, file content equal to a serialized sibling tree) realised on disk (LocalSource) or synthetically (fragmenting/interrupting readers); oracle: ls+dump+ranged reads+restore-to-disk all equal the generator's model, check(read_data) clean. non-trivial = at least one multi-chunk file or an id-collision construction; distinct = (config class, realisation, name class, collision kind)".to_string(),
        exhaustive: false,
        assumptions: vec![
            "storage is the harness's exact-map in-memory store".to_string(),
            "restore runs as root in the sandbox (ownership calls succeed); atime/ctime/xattrs/devices are not part of the property and not compared".to_string(),
            "directory mtimes are compared after restore (restore sets them last)".to_string(),
        ],
    };
    (rep, meta)
}
