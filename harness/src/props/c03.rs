//! C03 Every crash point or failed write leaves only fully readable snapshots

use std::collections::BTreeMap;

use bytesize::ByteSize;
use rustic_core::{ConfigOptions, FileType, Id, repofile::MasterKey, repofile::SnapshotFile};
use serde_json::json;

use crate::{
    cfggen::{GenCfg, gen_config},
    cmds::{Cmd, Env, Limit, PruneSpec, read_each_snapshot},
    evidence::{Ctx, Meta, Report, panic_sig, run_cases},
    model::{ALL_EDITS, ModelTree, NameClass, TreeParams, apply_edit, gen_tree},
    observe::{CmpOpts, Observed, diff_model, diff_obs},
    rng::Rng,
    store::{Event, FaultMode, FaultPlan, StoreState, Universe, apply_event, ev_desc, mutating_events},
};

/// snapshot id -> content at the base state (None: was not readable in the base state, e.g. on a deliberately damaged repository)
pub type Baseline = BTreeMap<Id, (SnapshotFile, Option<Observed>)>;

/// the crash-consistency oracle on one storage state
pub fn state_problems(states: &[StoreState], key: &MasterKey, baseline: &Baseline, new_model: Option<&ModelTree>, r: &mut Rng) -> Vec<(String, String)> {
    let uni = Universe::from_states(states.to_vec());
    uni.lock().recording = false;
    let env = Env::single(uni, key.clone());
    let mut out = Vec::new();
    match read_each_snapshot(&env, r) {
        Err(e) => out.push(("repository-unreadable".to_string(), e)),
        Ok(now) => {
            for (id, (_, obs)) in &now {
                match (baseline.get(id), obs) {
                    // was unreadable before the command: exempt
                    (Some((_, None)), _) => {}
                    (Some((_, Some(_))), Err(e)) | (None, Err(e)) => {
                        let sig = if e.contains("not found in index") || e.contains("not contained in index") { "snapshot-unreadable:blob-not-indexed" } else if e.contains("does not exist") { "snapshot-unreadable:file-missing" } else { "snapshot-unreadable" };
                        let which = if baseline.contains_key(id) { "existed before the command" } else { "is new" };
                        out.push((sig.to_string(), format!("snapshot {id} ({which}) cannot be read completely: {e}")));
                    }
                    (Some((_, Some(base))), Ok(obs)) => {
                        let d = diff_obs(base, obs, CmpOpts::ALL);
                        if let Some(x) = d.first() {
                            out.push(("old-snapshot-changed".to_string(), format!("snapshot {id} existed before and now reads differently: {x}")));
                        }
                    }
                    (None, Ok(obs)) => {
                        if let Some(m) = new_model {
                            // a new snapshot of a backup: must equal the source
                            let d = diff_model(m, obs, CmpOpts::ALL);
                            if let Some(x) = d.first() {
                                out.push(("new-snapshot-wrong".to_string(), format!("new snapshot {id} differs from its source: {x}")));
                            }
                        }
                    }
                }
            }
        }
    }
    out
}

/// commands that remove snapshots in favour of a replacement they write themselves (rewrite with forget, merge with
/// delete): at no point may an original be gone while its replacement is not there yet - that is a previously
/// existing snapshot losing all of its data
pub fn replacement_problems(states: &[StoreState], key: &MasterKey, baseline: &Baseline, variant: &str) -> Vec<(String, String)> {
    let mut out = Vec::new();
    if variant != "rewrite-forget" && variant != "merge-delete" {
        return out;
    }
    let rk = crate::rawrepo::RawKey::from_master(key);
    let Ok(now) = crate::rawrepo::read_snapshots(&rk, &states[0]) else { return out };
    for id in baseline.keys() {
        if states[0].has(FileType::Snapshot, id) {
            continue;
        }
        let replaced = if variant == "rewrite-forget" {
            now.iter().any(|(nid, v)| !baseline.contains_key(nid) && v["original"].as_str().is_some_and(|o| o == id.to_hex().as_str()))
        } else {
            now.keys().any(|nid| !baseline.contains_key(nid))
        };
        if !replaced {
            out.push(("original-removed-before-replacement-stored".to_string(), format!("snapshot {id} has been removed but the snapshot that replaces it is not in the repository")));
        }
    }
    out
}

pub struct Scenario {
    pub cfg: GenCfg,
    pub key: MasterKey,
    pub base: Vec<StoreState>,
    pub models: Vec<ModelTree>,
    pub next_model: ModelTree,
    pub tp: TreeParams,
}

pub fn build_scenario(r: &mut Rng, n_snaps: usize) -> Result<Scenario, String> {
    let mut cfg = gen_config(r);
    while cfg.heavy_compression || cfg.max < 64 {
        cfg = gen_config(r);
    }
    // force small packs so that commands issue many storage operations
    cfg.opts = cfg.opts.set_datapack_size(ByteSize(*r.pick(&[1u64, 600, 3000]))).set_treepack_size(ByteSize(*r.pick(&[1u64, 500, 4000])));
    let cap = (cfg.avg * 8).clamp(600, 12_000);
    let mut tp = TreeParams::small(cfg.sizes(r, cap));
    tp.max_entries = 7;
    tp.max_depth = 3;
    tp.name_classes = vec![NameClass::Ascii, NameClass::Escapes];
    let mut model = gen_tree(r, &tp);
    if model.entries.is_empty() {
        return Err("empty model".to_string());
    }
    let uni = Universe::new(1);
    let key = MasterKey::new();
    let env = Env::single(uni.clone(), key.clone());
    env.init(&cfg, r)?;
    let mut models = Vec::new();
    for i in 0..n_snaps {
        if i > 0 {
            for _ in 0..r.range(1, 3) {
                let k = r.pick(&ALL_EDITS).clone();
                let _ = apply_edit(r, &mut model, &k, &tp);
            }
        }
        Cmd::Backup { model: model.clone(), force: i % 2 == 1, time: 1_700_000_000 + i as i64 * 1000, dry_run: false }.run(&env).map_err(|p| format!("panic: {p}"))??;
        models.push(model.clone());
    }
    let mut next_model = model.clone();
    for _ in 0..r.range(1, 3) {
        let k = r.pick(&ALL_EDITS).clone();
        let _ = apply_edit(r, &mut next_model, &k, &tp);
    }
    Ok(Scenario { cfg, key, base: uni.snapshot(), models, next_model, tp })
}

/// (name, base state, command, model of the snapshot the command creates if it is a backup)
pub fn variants(sc: &Scenario, r: &mut Rng) -> Vec<(String, Vec<StoreState>, Cmd, Option<ModelTree>)> {
    let mut v = Vec::new();
    let key = &sc.key;
    let base = &sc.base;
    let run_on = |states: &[StoreState], cmds: &[Cmd]| -> Option<Vec<StoreState>> {
        let uni = Universe::from_states(states.to_vec());
        uni.lock().recording = false;
        let env = Env::single(uni.clone(), key.clone());
        for c in cmds {
            match c.run(&env) {
                Ok(Ok(())) => {}
                _ => return None,
            }
        }
        Some(uni.snapshot())
    };
    let t_next = 1_700_900_000;
    v.push(("backup-parent".to_string(), base.clone(), Cmd::Backup { model: sc.next_model.clone(), force: false, time: t_next, dry_run: false }, Some(sc.next_model.clone())));
    v.push(("backup-force".to_string(), base.clone(), Cmd::Backup { model: sc.next_model.clone(), force: true, time: t_next, dry_run: false }, Some(sc.next_model.clone())));
    v.push(("forget".to_string(), base.clone(), Cmd::Forget { positions: vec![0, 1] }, None));
    let safe = PruneSpec::default_safe();
    if let Some(forgot) = run_on(base, &[Cmd::Forget { positions: vec![0] }]) {
        let mut repack = safe.clone();
        repack.max_unused = Limit::Pct(0);
        v.push(("prune-mark-repack".to_string(), forgot.clone(), Cmd::Prune { spec: repack.clone() }, None));
        let mut fast = repack.clone();
        fast.fast_repack = true;
        fast.repack_all = true;
        v.push(("prune-repack-all-fast".to_string(), forgot.clone(), Cmd::Prune { spec: fast }, None));
        // early-delete-index is documented to act only together with instant-delete (the excluded combination); given
        // alone it must change nothing about the order of removals
        let mut early = repack.clone();
        early.early_delete_index = true;
        early.repack_all = true;
        v.push(("prune-early-delete-index-without-instant".to_string(), forgot.clone(), Cmd::Prune { spec: early }, None));
        let mut instant = repack.clone();
        instant.instant_delete = true;
        v.push(("prune-instant-delete".to_string(), forgot.clone(), Cmd::Prune { spec: instant }, None));
        let mut aged = repack.clone();
        aged.keep_delete_h = 0;
        if let Some(marked) = run_on(&forgot, &[Cmd::Prune { spec: aged.clone() }]) {
            v.push(("prune-delete-aged".to_string(), marked.clone(), Cmd::Prune { spec: aged }, None));
            // a backup reusing blobs of marked packs, then prune recovers them
            if let Some(reused) = run_on(&marked, &[Cmd::Backup { model: sc.models[0].clone(), force: true, time: t_next, dry_run: false }]) {
                v.push(("prune-recover".to_string(), reused, Cmd::Prune { spec: safe.clone() }, None));
            }
        }
    }
    // copy from another repository (different key and config)
    {
        let mut r2 = r.fork(77);
        if let Ok(src) = build_scenario(&mut r2, 2) {
            let src_env = Env::single(Universe::from_states(src.base.clone()), src.key.clone());
            src_env.uni.lock().recording = false;
            if src.cfg.rabin == sc.cfg.rabin {
                v.push(("copy".to_string(), base.clone(), Cmd::CopyFrom { src: src_env }, None));
            }
        }
    }
    v.push(("merge".to_string(), base.clone(), Cmd::Merge { positions: vec![0, 2], delete: false }, None));
    v.push(("merge-delete".to_string(), base.clone(), Cmd::Merge { positions: vec![0, 1], delete: true }, None));
    // rewrite: exclude the first file of the newest model
    if let Some((p, _)) = sc.models.last().and_then(|m| m.files().next()) {
        let name = String::from_utf8_lossy(p.last().unwrap()).to_string();
        if name.chars().all(|c| c.is_ascii_alphanumeric() || c == '_' || c == '-' || c == '.') {
            let pat = format!("!{name}");
            v.push(("rewrite".to_string(), base.clone(), Cmd::Rewrite { exclude: vec![pat.clone()], forget: false, dry_run: false }, None));
            v.push(("rewrite-forget".to_string(), base.clone(), Cmd::Rewrite { exclude: vec![pat], forget: true, dry_run: false }, None));
        }
    }
    // repair snapshots on a damaged repository: lose one data pack, repair the index, then repair snapshots
    {
        let mut st = base.clone();
        let packs = st[0].ids(FileType::Pack);
        if packs.len() >= 2 {
            // remove a pack that is not a tree pack: pick by trying until repair_index + check shows damage
            let victim = packs[r.usize_below(packs.len())];
            let _ = st[0].del(FileType::Pack, &victim);
            if let Some(damaged) = run_on(&st, &[Cmd::RepairIndex { read_all: false, dry_run: false }]) {
                v.push(("repair-snapshots".to_string(), damaged.clone(), Cmd::RepairSnapshots { delete: false, dry_run: false }, None));
                v.push(("repair-snapshots-delete".to_string(), damaged, Cmd::RepairSnapshots { delete: true, dry_run: false }, None));
            }
        }
    }
    // repair index after losing an index file
    {
        let mut st = base.clone();
        let idx = st[0].ids(FileType::Index);
        if !idx.is_empty() {
            let victim = idx[r.usize_below(idx.len())];
            let _ = st[0].del(FileType::Index, &victim);
            v.push(("repair-index-lost-indexfile".to_string(), st, Cmd::RepairIndex { read_all: false, dry_run: false }, None));
        }
        v.push(("repair-index-readall".to_string(), base.clone(), Cmd::RepairIndex { read_all: true, dry_run: false }, None));
    }
    v.push(("config".to_string(), base.clone(), Cmd::ApplyConfig { opts: ConfigOptions::default().set_treepack_size(ByteSize(12_345)).set_compression(if sc.cfg.version == 2 { 5 } else { 0 }) }, None));
    v
}

fn baseline_of(states: &[StoreState], key: &MasterKey, r: &mut Rng) -> Result<Baseline, String> {
    let uni = Universe::from_states(states.to_vec());
    uni.lock().recording = false;
    Ok(read_each_snapshot(&Env::single(uni, key.clone()), r)?.into_iter().map(|(id, (s, o))| (id, (s, o.ok()))).collect())
}

/// record one execution of `cmd` on `base`; returns (mutating events in storage order, result)
pub fn record(base: &[StoreState], key: &MasterKey, cmd: &Cmd, delay: Option<(u64, u64)>) -> (Vec<Event>, Result<Result<(), String>, String>) {
    let uni = Universe::from_states(base.to_vec());
    uni.set_delay(delay);
    let env = Env::single(uni.clone(), key.clone());
    let res = cmd.run(&env);
    let log = uni.take_log();
    let mut evs: Vec<Event> = mutating_events(&log).into_iter().cloned().collect();
    evs.sort_by_key(|e| e.apply_seq);
    (evs, res)
}

fn one_case(ctx: &Ctx, case: u64, r: &mut Rng, rep: &mut Report, n_variants_hint: u64) {
    let scen_idx = case / n_variants_hint;
    let var_idx = (case % n_variants_hint) as usize;
    // all variants of one scenario share the scenario seed
    let mut rs = Rng::new(ctx.seed).fork(0x5ce0 + scen_idx);
    let sc = match build_scenario(&mut rs, 3) {
        Ok(s) => s,
        Err(e) => {
            rep.inconclusive(format!("scenario {scen_idx} could not be built: {e}"));
            return;
        }
    };
    let vars = variants(&sc, &mut rs);
    let Some((name, base, cmd, new_model)) = vars.into_iter().nth(var_idx) else { return };
    let detail0 = json!({"scenario": scen_idx, "variant": name, "config": sc.cfg.desc, "command": cmd.name()});
    let baseline = match baseline_of(&base, &sc.key, r) {
        Ok(b) => b,
        Err(e) => {
            rep.inconclusive(format!("{name}: base state not readable ({e})"));
            return;
        }
    };
    // delay seeds: observe several linearisations of the concurrent writers
    let n_seeds = ctx.tier.pick(2u64, 6);
    let mut orders = std::collections::BTreeSet::new();
    let mut n_ops_max = 0usize;
    for ds in 0..n_seeds {
        let delay = if ds == 0 { None } else { Some((r.next_u64(), 300)) };
        let (evs, res) = record(&base, &sc.key, &cmd, delay);
        match &res {
            Err(p) => {
                rep.violation(case, format!("panic:{}", panic_sig(p)), format!("{name}: command panicked without any fault: {p}"), detail0.clone());
                return;
            }
            Ok(Err(e)) => {
                rep.inconclusive(format!("{name}: command fails on the base state: {e}"));
                return;
            }
            Ok(Ok(())) => {}
        }
        let order_sig: Vec<String> = evs.iter().map(ev_desc).collect();
        let fresh = orders.insert(crate::rng::fnv(order_sig.join(",").as_bytes()));
        n_ops_max = n_ops_max.max(evs.len());
        if !fresh {
            continue;
        }
        // crash oracle on every prefix of this linearisation
        let mut st = base.clone();
        for k in 0..=evs.len() {
            if k > 0 {
                apply_event(&mut st, &evs[k - 1]);
            }
            rep.evaluations += 1;
            rep.count("crash_prefix_states_evaluated", 1);
            let mut probs = state_problems(&st, &sc.key, &baseline, if k == evs.len() { new_model.as_ref() } else { new_model.as_ref() }, r);
            probs.extend(replacement_problems(&st, &sc.key, &baseline, &name));
            if let Some((sig, d)) = probs.into_iter().next() {
                rep.violation(
                    case,
                    format!("crash:{}:{sig}", cmd.kind()),
                    format!("{name}: after {k} of {} storage operations ({}) the repository state violates the property: {d}", evs.len(), if k > 0 { ev_desc(&evs[k - 1]) } else { "none".to_string() }),
                    json!({"case": detail0, "k": k, "ops": order_sig}),
                );
                break;
            }
        }
        if ds == 0 {
            rep.sample(json!({"variant": name, "command": cmd.name(), "storage_ops": order_sig.iter().take(40).collect::<Vec<_>>(), "n_ops": evs.len()}));
        }
    }
    rep.count("distinct_linearisations_observed", orders.len() as u64);
    rep.set_add("commands", cmd.kind());
    if n_ops_max >= 2 {
        rep.class(format!("{name}/{}ops", match n_ops_max { 0..=3 => "<=3", 4..=10 => "4-10", 11..=30 => "11-30", _ => ">30" }));
    }
    // fault oracle: fail the k-th mutating operation
    for k in 0..n_ops_max as u64 {
        for mode in [FaultMode::NoEffect, FaultMode::EffectThenError] {
            let uni = Universe::from_states(base.clone());
            uni.set_fault(Some(FaultPlan { k, mode }));
            let env = Env::single(uni.clone(), sc.key.clone());
            let res = cmd.run(&env);
            if !uni.fault_fired() {
                continue;
            }
            rep.evaluations += 1;
            rep.count("single_faults_injected", 1);
            let log = uni.take_log();
            let failed_op = log.iter().find(|e| e.faulted).map_or_else(String::new, ev_desc);
            match res {
                Ok(Ok(())) => {
                    rep.violation(
                        case,
                        format!("fault-swallowed:{}:{}", cmd.kind(), failed_op.split(':').nth(1).unwrap_or("?").to_string() + ":" + failed_op.split(':').nth(2).unwrap_or("?")),
                        format!("{name}: storage operation {failed_op} (mutating op #{k}, {mode:?}) failed but the command reported success"),
                        json!({"case": detail0, "k": k, "mode": format!("{mode:?}")}),
                    );
                }
                Err(p) => {
                    rep.count("faults_answered_by_panic", 1);
                    rep.set_add("panics_on_fault", panic_sig(&p));
                }
                Ok(Err(_)) => rep.count("faults_answered_by_error", 1),
            }
            uni.set_fault(None);
            let st = uni.snapshot();
            let mut probs = state_problems(&st, &sc.key, &baseline, new_model.as_ref(), r);
            probs.extend(replacement_problems(&st, &sc.key, &baseline, &name));
            if let Some((sig, d)) = probs.into_iter().next() {
                rep.violation(
                    case,
                    format!("fault:{}:{sig}", cmd.kind()),
                    format!("{name}: after failing storage operation {failed_op} (mutating op #{k}, {mode:?}) the repository state violates the property: {d}"),
                    json!({"case": detail0, "k": k, "mode": format!("{mode:?}")}),
                );
            }
        }
    }
}

pub const N_VARIANTS: u64 = 19;

pub fn run(ctx: &Ctx) -> (Report, Meta) {
    let n_scen = ctx.tier.pick(5u64, 150);
    let rep = run_cases(ctx, n_scen * N_VARIANTS, &|c, i, r, rep| one_case(c, i, r, rep, N_VARIANTS));
    let meta = Meta {
        level: "fault_enumeration",
        rule: "case = (scenario: generated config with tiny pack sizes + 3 backups of an evolving generated tree) x command variant {backup with/without parent, forget, prune mark+repack / repack-all+fast / instant-delete / delete aged packs / recover, copy from a repository with another key, merge (+delete), rewrite (+forget), repair snapshots (+delete) on a repository that lost a pack, repair index (lost index file / read-all), config change}. For each: the ordered list of write/remove calls that reached storage is recorded (one universe lock = true storage order) under several delay seeds; EVERY prefix state is reconstructed and every listed snapshot read back completely (ls+dump) and compared with its content before the command; then EVERY single mutating operation is failed in turn (no effect / effect then error): the command must not report success and the resulting state must pass the same oracle. distinct_nontrivial = distinct (variant, op-count class) with >= 2 storage operations".to_string(),
        exhaustive: true,
        assumptions: vec![
            "exhaustive = all prefixes and all single faults of the recorded linearisations; other linearisations are sampled by seeded backend delays, not enumerated".to_string(),
            "storage applies acknowledged operations in order (no reordering inside the backend); single-store repositories (hot/cold in C16); the documented-unsafe instant-delete + early-delete-index pair is excluded".to_string(),
            "key add/remove is exercised in C04/C15 (scrypt cost); a panic in answer to a failed write counts as 'failed loudly' and is listed, not judged".to_string(),
        ],
    };
    (rep, meta)
}
