//! C12 Copy, merge, rewrite and repair preserve all content they keep

use std::collections::{BTreeMap, BTreeSet};

use rustic_core::{FileType, Id, last_modified_node, repofile::SnapshotFile};
use serde_json::json;

use crate::{
    cmds::{Cmd, Limit, PruneSpec, read_each_snapshot},
    evidence::{Ctx, Meta, Report, catch, panic_sig, run_cases},
    model::{ALL_EDITS, Kind, ModelTree, NameClass, PathKey, apply_edit, pk_display},
    observe::{CmpOpts, Observed, diff_model, diff_obs, observe_ls_dump},
    props::c02::{H, setup},
    rawrepo::index_view,
    repo::{check_full, errstr, snap_at},
    rng::Rng,
    store::{Op, Universe},
};

fn evolve(h: &mut H, r: &mut Rng, n: usize) -> Result<Vec<Id>, String> {
    let mut ids = Vec::new();
    for i in 0..n {
        if i > 0 {
            for _ in 0..r.range(1, 3) {
                let k = r.pick(&ALL_EDITS).clone();
                let _ = apply_edit(r, &mut h.model, &k, &h.tp);
            }
        }
        ids.push(h.backup(r.chance(1, 2))?);
    }
    Ok(ids)
}

// ------------------------------------------------------------------------------------------------
fn copy_case(_ctx: &Ctx, case: u64, r: &mut Rng, rep: &mut Report) {
    let (mut src, mut dst) = match (setup(r), setup(r)) {
        (Ok(a), Ok(b)) => (a, b),
        _ => {
            rep.inconclusive("setup".to_string());
            return;
        }
    };
    // `relevant_copy_snapshots` identifies snapshots by their time stamp (SnapshotFile's equality): keep the
    // time stamps of the two repositories apart, as they are in practice (nanosecond resolution)
    dst.time += 50_000;
    let nsrc = r.range(1, 3) as usize;
    if evolve(&mut src, r, nsrc).is_err() {
        return;
    }
    // tree/data id collision in the source
    if r.chance(1, 5) {
        let trees = crate::props::c01::stored_tree_blobs(&src.uni, &src.key);
        if let Some(tb) = trees.iter().filter(|t| t.len() <= src.cfg.min.max(1) || !src.cfg.rabin && t.len() <= src.cfg.avg).max_by_key(|t| t.len()).cloned() {
            src.model.insert(crate::model::pk("collide"), crate::model::Entry { kind: Kind::File(std::sync::Arc::new(tb)), mode: 0o644, mtime: (1_600_000_999, 0), hardlink: None });
            let _ = src.backup(true);
            rep.set_add("copy_variants", "tree-data-id-collision");
        }
    }
    // destination: empty, or pre-populated with part of the content (same chunker => shared blobs), or unrelated
    let prepop = r.below(4);
    if prepop == 3 {
        // the destination received these snapshots before, some were forgotten there and a quick prune (no repacking)
        // removed the packs nothing uses any more: partly used packs stay, so root trees may survive without all that
        // lies below them
        if src.snaps.len() < 2 {
            let _ = evolve(&mut src, r, 2);
        }
        // all trees in one pack, every data blob in a pack of its own: the quick prune then keeps the tree pack as
        // long as one snapshot remains and drops exactly the data nothing uses any more
        let _ = (Cmd::ApplyConfig { opts: rustic_core::ConfigOptions::default().set_treepack_size(bytesize::ByteSize(200_000)).set_datapack_size(bytesize::ByteSize(1)) }).run(&dst.env);
        dst.uni.lock().recording = false;
        let _ = (Cmd::CopyFrom { src: src.env.clone() }).run(&dst.env);
        dst.uni.lock().recording = true;
        if let Ok(repo) = dst.env.open() {
            if let Ok(snaps) = repo.get_all_snapshots() {
                if snaps.len() >= 2 {
                    let keep = r.usize_below(snaps.len());
                    let victims: Vec<_> = snaps.iter().enumerate().filter(|(i, _)| *i != keep && (r.chance(2, 3) || snaps.len() == 2)).map(|(_, s)| s.id).collect();
                    let _ = repo.delete_snapshots(&victims);
                }
            }
        }
        let mut spec = PruneSpec::default_safe();
        spec.max_repack = Limit::Size(0);
        spec.max_unused = Limit::Unlimited;
        spec.instant_delete = true;
        spec.keep_delete_h = 0;
        let _ = (Cmd::Prune { spec }).run(&dst.env);
        rep.set_add("copy_variants", "destination-had-the-snapshots-forgot-some-and-quick-pruned");
        // how often does that leave a root tree of a source snapshot behind whose content is no longer complete?
        {
            let drk = dst.rk();
            let dstate = dst.uni.state(0);
            if let (Ok(dview), Ok(ssnaps)) = (index_view(&drk, &dstate), src.env.open().and_then(|r| r.get_all_snapshots().map_err(|e| errstr(&e)))) {
                for sn in ssnaps {
                    let t: Id = *sn.tree;
                    if dview.blobs.contains_key(&("tree".to_string(), t)) {
                        let mut refs = BTreeSet::new();
                        let complete = crate::rawrepo::reachable(&drk, &dstate, &dview, &t, &mut refs).is_ok() && refs.iter().all(|k| dview.blobs.contains_key(k));
                        if !complete {
                            rep.count("copy_destination_holds_root_tree_with_incomplete_content", 1);
                        }
                    }
                }
            }
        }
    } else if prepop == 1 {
        dst.model = src.snaps.values().next().cloned().unwrap_or_default();
        let _ = dst.backup(true);
        rep.set_add("copy_variants", "destination-has-part-of-the-content");
    } else if prepop == 2 {
        let _ = dst.backup(true);
        rep.set_add("copy_variants", "destination-has-unrelated-content");
    } else {
        rep.set_add("copy_variants", "destination-empty");
    }
    let before_dst: BTreeMap<Id, ModelTree> = dst.snaps.clone();
    let src_env = {
        src.uni.lock().recording = false;
        src.env.clone()
    };
    let detail = json!({"src_config": src.cfg.desc, "dst_config": dst.cfg.desc, "src_snapshots": src.snaps.len(), "prepopulated": prepop});
    rep.evaluations += 1;
    match (Cmd::CopyFrom { src: src_env.clone() }).run(&dst.env) {
        Err(p) => {
            rep.violation(case, format!("panic:{}", panic_sig(&p)), format!("copy panicked: {p}"), detail);
            return;
        }
        Ok(Err(e)) => {
            rep.violation(case, "copy:error", e, detail);
            return;
        }
        Ok(Ok(())) => {}
    }
    // every source snapshot must now exist in the destination (matched by time+tree content) and read equal
    let (Ok(s), Ok(d)) = (read_each_snapshot(&src_env, r), read_each_snapshot(&dst.env, r)) else {
        rep.violation(case, "copy:unreadable", "cannot read repositories after copy".to_string(), detail);
        return;
    };
    for (sid, (ssnap, sobs)) in &s {
        let Ok(sobs) = sobs else { continue };
        let cands: Vec<&(SnapshotFile, Result<Observed, String>)> = d.values().filter(|(x, _)| x.time == ssnap.time && x.hostname == ssnap.hostname && !before_dst.contains_key(&x.id)).collect();
        if cands.is_empty() {
            rep.violation(case, "copy:snapshot-missing", format!("source snapshot {sid} has no counterpart in the destination"), detail.clone());
            continue;
        }
        let ok = cands.iter().any(|(_, o)| o.as_ref().is_ok_and(|o| diff_obs(sobs, o, CmpOpts::ALL).is_empty()));
        if !ok {
            let why = match &cands[0].1 {
                Err(e) => format!("unreadable in destination: {e}"),
                Ok(o) => diff_obs(sobs, o, CmpOpts::ALL).first().cloned().unwrap_or_default(),
            };
            rep.violation(case, "copy:content", format!("copied snapshot {sid} does not read back identically: {why}"), detail.clone());
        }
    }
    // pre-existing destination snapshots untouched
    for (id, m) in &before_dst {
        match d.get(id).map(|x| &x.1) {
            Some(Ok(o)) if diff_model(m, o, CmpOpts::ALL).is_empty() => {}
            other => rep.violation(case, "copy:destination-snapshot-damaged", format!("destination snapshot {id}: {:?}", other.map(|x| x.as_ref().err())), detail.clone()),
        }
    }
    match catch(|| dst.env.open().and_then(|repo| check_full(&repo).map_err(|e| errstr(&e)))) {
        Ok(Ok(errs)) => {
            if let Some(e) = errs.first() {
                rep.violation(case, "copy:check", format!("destination check: {e}"), detail.clone());
            }
        }
        other => rep.violation(case, "copy:check-failed", format!("{other:?}"), detail.clone()),
    }
    // copying again adds nothing
    dst.uni.clear_log();
    let _ = (Cmd::CopyFrom { src: src_env }).run(&dst.env);
    let log = dst.uni.take_log();
    if let Some(e) = log.iter().find(|e| e.op == Op::Write && matches!(e.tpe, FileType::Pack | FileType::Snapshot)) {
        rep.violation(case, "copy:not-idempotent", format!("a second copy of the same snapshots wrote {}", crate::store::ev_desc(e)), detail);
    }
    rep.class(format!("copy/prepop{prepop}/{}->{}", src.cfg.class.split('/').next().unwrap_or(""), dst.cfg.class.split('/').next().unwrap_or("")));
}

// ------------------------------------------------------------------------------------------------
/// reference merge on models (cmp = newest mtime wins; directories are merged)
pub fn merge_models(models: &[&ModelTree]) -> Result<ModelTree, String> {
    fn rec(models: &[&ModelTree], prefix: &PathKey, out: &mut ModelTree) -> Result<(), String> {
        let mut names: BTreeSet<Vec<u8>> = BTreeSet::new();
        for m in models {
            for (k, _) in m.children(prefix) {
                let _ = names.insert(k.last().unwrap().clone());
            }
        }
        for name in names {
            let mut path = prefix.clone();
            path.push(name);
            let cands: Vec<(&ModelTree, &crate::model::Entry)> = models.iter().filter_map(|m| m.entries.get(&path).map(|e| (*m, e))).collect();
            let max_m = cands.iter().map(|(_, e)| e.mtime).max().unwrap();
            let winners: Vec<_> = cands.iter().filter(|(_, e)| e.mtime == max_m).collect();
            // ties between different nodes make the result depend on an unspecified order
            if winners.iter().any(|(_, e)| *e != winners[0].1) {
                return Err(format!("ambiguous: equal mtime for different versions of {}", pk_display(&path)));
            }
            let w = winners[0].1.clone();
            let is_dir = matches!(w.kind, Kind::Dir);
            let _ = out.entries.insert(path.clone(), w);
            if is_dir {
                let subs: Vec<&ModelTree> = cands.iter().filter(|(_, e)| matches!(e.kind, Kind::Dir)).map(|(m, _)| *m).collect();
                rec(&subs, &path, out)?;
            }
        }
        Ok(())
    }
    let mut out = ModelTree::new();
    rec(models, &Vec::new(), &mut out)?;
    Ok(out)
}

fn merge_case(_ctx: &Ctx, case: u64, r: &mut Rng, rep: &mut Report) {
    let mut h = match setup(r) {
        Ok(h) => h,
        Err(e) => {
            rep.inconclusive(format!("setup: {e}"));
            return;
        }
    };
    // names whose escaped order differs from the raw order are the interesting ones
    h.tp.name_classes = vec![NameClass::Ascii, NameClass::Escapes, NameClass::InvalidUtf8, NameClass::Utf8];
    h.model = crate::model::gen_tree(r, &h.tp);
    let n = r.range(2, 4) as usize;
    let mut ids = Vec::new();
    for i in 0..n {
        if i > 0 {
            // independent branches: sometimes restart from the first model
            for _ in 0..r.range(1, 4) {
                let k = r.pick(&ALL_EDITS).clone();
                let _ = apply_edit(r, &mut h.model, &k, &h.tp);
            }
        }
        match h.backup(true) {
            Ok(id) => ids.push(id),
            Err(_) => return,
        }
    }
    let models: Vec<&ModelTree> = ids.iter().map(|i| &h.snaps[i]).collect();
    let expected = match merge_models(&models) {
        Ok(m) => m,
        Err(e) => {
            rep.count("merge_cases_skipped_ambiguous", 1);
            let _ = e;
            return;
        }
    };
    let detail = json!({"config": h.cfg.desc, "snapshots": n, "entries": models.iter().map(|m| m.entries.len()).collect::<Vec<_>>()});
    rep.evaluations += 1;
    let res = catch(|| -> Result<SnapshotFile, String> {
        let repo = h.env.ids()?;
        let snaps = repo.get_all_snapshots().map_err(|e| errstr(&e))?;
        repo.merge_snapshots(&snaps, &last_modified_node, snap_at(1_800_000_000, "merge")).map_err(|e| errstr(&e))
    });
    let merged = match res {
        Err(p) => {
            rep.violation(case, format!("panic:{}", panic_sig(&p)), format!("merge panicked: {p}"), detail);
            return;
        }
        Ok(Err(e)) => {
            rep.violation(case, "merge:error", e, detail);
            return;
        }
        Ok(Ok(s)) => s,
    };
    match h.env.full().and_then(|repo| observe_ls_dump(&repo, &merged, r, 0)) {
        Err(e) => {
            let sig = if e.contains("DUPLICATE-PATH") { "merge:duplicate-names" } else { "merge:unreadable" };
            rep.violation(case, sig, format!("merged snapshot: {e}"), detail.clone());
        }
        Ok(obs) => {
            if let Some(d) = diff_model(&expected, &obs, CmpOpts::ALL).first() {
                rep.violation(case, format!("merge:{}", d.split(' ').next().unwrap_or("?")), format!("merged snapshot differs from the reference merge: {d}"), detail.clone());
            } else {
                rep.count("merge_results_equal_to_reference", 1);
            }
        }
    }
    // names ordered inside every merged tree (raw order) - via raw parse
    let rk = h.rk();
    let st = h.uni.state(0);
    if let Ok(view) = index_view(&rk, &st) {
        let mut reach = BTreeSet::new();
        if crate::rawrepo::reachable(&rk, &st, &view, &merged.tree, &mut reach).is_ok() {
            for (t, id) in reach.iter().filter(|x| x.0 == "tree") {
                if let Ok(b) = crate::rawrepo::read_blob(&rk, &st, &view, t, id) {
                    if let Ok(tree) = serde_json::from_slice::<rustic_core::repofile::Tree>(&b) {
                        let names: Vec<Vec<u8>> = tree.nodes.iter().map(|n| std::os::unix::ffi::OsStrExt::as_bytes(&*n.name()).to_vec()).collect();
                        if names.windows(2).any(|w| w[0] >= w[1]) {
                            rep.violation(case, "merge:tree-not-ordered", format!("merged tree {id} is not strictly ordered by name"), detail.clone());
                        }
                    }
                }
            }
        }
    }
    // inputs untouched
    if let Ok(m) = read_each_snapshot(&h.env, r) {
        for id in &ids {
            match m.get(id).map(|x| &x.1) {
                Some(Ok(o)) if diff_model(&h.snaps[id], o, CmpOpts::ALL).is_empty() => {}
                _ => rep.violation(case, "merge:input-damaged", format!("input snapshot {id} changed"), detail.clone()),
            }
        }
    }
    let special = models.iter().any(|m| m.entries.keys().any(|k| k.iter().any(|c| c.iter().any(|b| *b < 0x20 || *b == b'\\' || *b == b'"' || *b >= 0x80))));
    rep.class(format!("merge/{n}snapshots/{}", if special { "escaped-names" } else { "plain-names" }));
}

// ------------------------------------------------------------------------------------------------
fn excluded(path: &PathKey, pats: &[(u8, Vec<u8>)]) -> bool {
    // path is relative to the snapshot root, i.e. starts with "r"
    for (kind, p) in pats {
        match kind {
            // anchored literal (file or directory): the entry and everything below
            0 => {
                let comps: Vec<&[u8]> = p.split(|b| *b == b'/').filter(|c| !c.is_empty()).collect();
                if path.len() >= comps.len() && path.iter().zip(&comps).all(|(a, b)| a.as_slice() == *b) {
                    return true;
                }
            }
            // base name suffix at any depth (a matching directory takes its subtree with it)
            _ => {
                if path.iter().any(|c| c.ends_with(p)) {
                    return true;
                }
            }
        }
    }
    false
}

fn rewrite_case(_ctx: &Ctx, case: u64, r: &mut Rng, rep: &mut Report) {
    let mut h = match setup(r) {
        Ok(h) => h,
        Err(e) => {
            rep.inconclusive(format!("setup: {e}"));
            return;
        }
    };
    h.tp.name_classes = vec![NameClass::Ascii];
    h.tp.max_entries = 12;
    h.model = crate::model::gen_tree(r, &h.tp);
    // make suffix patterns meaningful
    let keys: Vec<PathKey> = h.model.entries.keys().cloned().collect();
    for k in keys.iter().take(3) {
        if r.chance(1, 2) {
            let e = h.model.entries[k].clone();
            if !matches!(e.kind, Kind::Dir) {
                let mut k2 = k.clone();
                k2.last_mut().unwrap().extend_from_slice(b".tmp");
                let _ = h.model.entries.remove(k);
                h.model.insert(k2, e);
            }
        }
    }
    // one base name used for a directory in one place and for a plain file in another: a directory-only glob (`!name/`)
    // must take the directory and leave the file
    let dir_only_name: Option<Vec<u8>> = if r.chance(1, 2) {
        let name = b"cachedir".to_vec();
        let e_dir = crate::model::Entry { kind: Kind::Dir, mode: 0o755, mtime: (1_650_000_900, 0), hardlink: None };
        let e_file = |n: usize, r: &mut Rng| crate::model::Entry { kind: Kind::File(std::sync::Arc::new(r.bytes(n))), mode: 0o644, mtime: (1_650_000_901, 0), hardlink: None };
        h.model.insert(vec![name.clone()], e_dir.clone());
        let f1 = e_file(40, r);
        h.model.insert(vec![name.clone(), b"inside".to_vec()], f1);
        h.model.insert(vec![b"holder".to_vec()], e_dir);
        let f2 = e_file(55, r);
        h.model.insert(vec![b"holder".to_vec(), name.clone()], f2);
        Some(name)
    } else {
        None
    };
    // a twin: one directory cloned with all its metadata to a second place, so that the same tree id occurs under two
    // paths and a path-anchored exclude must hit only one of them
    let mut twin: Option<(PathKey, PathKey)> = None;
    if r.chance(2, 3) {
        let dirs: Vec<PathKey> = h
            .model
            .entries
            .iter()
            .filter(|(k, e)| matches!(e.kind, Kind::Dir) && h.model.entries.keys().any(|k2| k2.len() > k.len() && k2.starts_with(k)))
            .filter(|(k, _)| !h.model.entries.iter().any(|(k2, e2)| k2.starts_with(k) && e2.hardlink.is_some()))
            .map(|(k, _)| k.clone())
            .collect();
        if !dirs.is_empty() {
            let d = r.pick(&dirs).clone();
            let mut d2 = d.clone();
            d2.last_mut().unwrap().extend_from_slice(b"_twin");
            let sub: Vec<(PathKey, crate::model::Entry)> = h.model.entries.iter().filter(|(k, _)| k.starts_with(&d)).map(|(k, e)| (k.clone(), e.clone())).collect();
            for (k, e) in sub {
                let mut k2 = d2.clone();
                k2.extend(k[d.len()..].iter().cloned());
                h.model.insert(k2, e);
            }
            twin = Some((d, d2));
        }
    }
    let nev = r.range(1, 2) as usize;
    let Ok(ids) = evolve(&mut h, r, nev) else { return };
    let target_model = h.snaps[ids.last().unwrap()].clone();
    // patterns
    let mut pats: Vec<(u8, Vec<u8>)> = Vec::new();
    let mut globs: Vec<String> = Vec::new();
    let all: Vec<PathKey> = target_model.entries.keys().cloned().collect();
    // with a twin: a literal path inside one of the two copies
    if let Some((d, d2)) = &twin {
        let base = if r.chance(1, 2) { d } else { d2 };
        let inside: Vec<&PathKey> = all.iter().filter(|k| k.len() > base.len() && k.starts_with(base)).collect();
        if !inside.is_empty() {
            let k = (*r.pick(&inside)).clone();
            let lit = format!("/r/{}", k.iter().map(|c| String::from_utf8_lossy(c).to_string()).collect::<Vec<_>>().join("/"));
            if lit.chars().all(|c| c.is_ascii_alphanumeric() || "/_-.".contains(c)) {
                pats.push((0, lit.clone().into_bytes()));
                globs.push(format!("!{lit}"));
                rep.count("rewrite_excludes_inside_one_of_two_identical_subtrees", 1);
            }
        }
    }
    for _ in 0..r.range(if globs.is_empty() { 1 } else { 0 }, 2) {
        match r.below(3) {
            0 if !all.is_empty() => {
                let k = r.pick(&all).clone();
                let lit = format!("/r/{}", k.iter().map(|c| String::from_utf8_lossy(c).to_string()).collect::<Vec<_>>().join("/"));
                if lit.chars().all(|c| c.is_ascii_alphanumeric() || "/_-.".contains(c)) {
                    pats.push((0, lit.clone().into_bytes()));
                    globs.push(format!("!{lit}"));
                }
            }
            1 => {
                pats.push((1, b".tmp".to_vec()));
                globs.push("!*.tmp".to_string());
            }
            _ => {
                let dirs: Vec<&PathKey> = all.iter().filter(|k| matches!(target_model.entries[*k].kind, Kind::Dir)).collect();
                if let Some(k) = dirs.first() {
                    let lit = format!("/r/{}", k.iter().map(|c| String::from_utf8_lossy(c).to_string()).collect::<Vec<_>>().join("/"));
                    pats.push((0, lit.clone().into_bytes()));
                    globs.push(format!("!{lit}"));
                }
            }
        }
    }
    let mut dir_only: Vec<Vec<u8>> = Vec::new();
    if let Some(name) = &dir_only_name {
        let dir_there = matches!(target_model.entries.get(&vec![name.clone()]).map(|e| &e.kind), Some(Kind::Dir));
        let file_there = matches!(target_model.entries.get(&vec![b"holder".to_vec(), name.clone()]).map(|e| &e.kind), Some(Kind::File(_)));
        if dir_there && file_there && r.chance(2, 3) {
            dir_only.push(name.clone());
            globs.push(format!("!{}/", String::from_utf8_lossy(name)));
            rep.count("rewrite_directory_only_globs", 1);
        }
    }
    if globs.is_empty() {
        return;
    }
    let forget = r.chance(1, 2);
    let mut expected = ModelTree::new();
    for (k, e) in &target_model.entries {
        let mut full = vec![b"r".to_vec()];
        full.extend(k.iter().cloned());
        // `!name/`: a DIRECTORY of that name at any depth goes with everything below it; a file of that name stays
        let hit_dir_only = dir_only.iter().any(|name| (1..=k.len()).any(|i| &k[i - 1] == name && matches!(target_model.entries.get(&k[..i].to_vec()).map(|e| &e.kind), Some(Kind::Dir))));
        if !excluded(&full, &pats) && !hit_dir_only {
            let _ = expected.entries.insert(k.clone(), e.clone());
        }
    }
    let detail = json!({"config": h.cfg.desc, "globs": globs, "forget": forget, "entries": target_model.entries.len(), "expected_entries": expected.entries.len()});
    let before = match read_each_snapshot(&h.env, r) {
        Ok(b) => b,
        Err(_) => return,
    };
    rep.evaluations += 1;
    match (Cmd::Rewrite { exclude: globs.clone(), forget, dry_run: false }).run(&h.env) {
        Err(p) => {
            rep.violation(case, format!("panic:{}", panic_sig(&p)), format!("rewrite panicked: {p}"), detail);
            return;
        }
        Ok(Err(e)) => {
            rep.violation(case, "rewrite:error", e, detail);
            return;
        }
        Ok(Ok(())) => {}
    }
    let after = match read_each_snapshot(&h.env, r) {
        Ok(a) => a,
        Err(e) => {
            rep.violation(case, "rewrite:unreadable", e, detail);
            return;
        }
    };
    let old_id = *ids.last().unwrap();
    // every snapshot model -> expected after rewriting
    let new: Vec<&(SnapshotFile, Result<Observed, String>)> = after.iter().filter(|(id, _)| !before.contains_key(*id)).map(|(_, v)| v).collect();
    // the rewritten version of the last snapshot
    let cand = new.iter().find(|(s, _)| s.time == before[&old_id].0.time);
    let changed = expected != target_model;
    match cand {
        None => {
            if changed {
                rep.violation(case, "rewrite:no-new-snapshot", "paths were excluded but no rewritten snapshot appeared".to_string(), detail.clone());
            }
        }
        Some((s, o)) => match o {
            Err(e) => rep.violation(case, "rewrite:new-unreadable", e.clone(), detail.clone()),
            Ok(o) => {
                if let Some(d) = diff_model(&expected, o, CmpOpts::ALL).first() {
                    rep.violation(case, format!("rewrite:{}", d.split(' ').next().unwrap_or("?")), format!("rewritten snapshot differs from (source minus excluded paths): {d}"), detail.clone());
                } else {
                    rep.count("rewrite_results_equal_to_reference", 1);
                }
                if !forget && !s.tags.contains("rewrite") {
                    rep.violation(case, "rewrite:tag", "rewritten snapshot lacks the `rewrite` tag".to_string(), detail.clone());
                }
            }
        },
    }
    // old snapshot gone iff forget (and only if something changed); otherwise identical
    let still = after.contains_key(&old_id);
    if changed && forget && still {
        rep.violation(case, "rewrite:old-not-forgotten", "forget was requested but the original snapshot is still there".to_string(), detail.clone());
    }
    if (!forget || !changed) && !still {
        rep.violation(case, "rewrite:old-removed", "the original snapshot was removed although forget was not requested (or nothing changed)".to_string(), detail.clone());
    }
    if still {
        if let (Ok(a), Ok(b)) = (&before[&old_id].1, &after[&old_id].1) {
            if !diff_obs(a, b, CmpOpts::ALL).is_empty() {
                rep.violation(case, "rewrite:old-changed", "the original snapshot reads differently after rewrite".to_string(), detail.clone());
            }
        }
    }
    rep.class(format!("rewrite/{}{}", globs.iter().map(|g| if g.starts_with("!*") { "suffix" } else { "literal" }).collect::<Vec<_>>().join("+"), if forget { "/forget" } else { "" }));
    if case % 19 == 0 {
        rep.sample(detail);
    }
}

// ------------------------------------------------------------------------------------------------
fn repair_case(_ctx: &Ctx, case: u64, r: &mut Rng, rep: &mut Report) {
    let mut h = match setup(r) {
        Ok(h) => h,
        Err(e) => {
            rep.inconclusive(format!("setup: {e}"));
            return;
        }
    };
    let nev = r.range(1, 3) as usize;
    let Ok(_ids) = evolve(&mut h, r, nev) else { return };
    let before = match read_each_snapshot(&h.env, r) {
        Ok(b) => b,
        Err(_) => return,
    };
    // (1) undamaged: nothing is written or removed
    h.uni.clear_log();
    rep.evaluations += 1;
    let res = (Cmd::RepairSnapshots { delete: true, dry_run: false }).run(&h.env);
    let log = h.uni.take_log();
    if let Some(e) = log.iter().find(|e| e.op.mutating()) {
        rep.violation(case, "repair:undamaged-touched", format!("repair of an undamaged repository issued {}", crate::store::ev_desc(e)), json!({"config": h.cfg.desc}));
    }
    if !matches!(res, Ok(Ok(()))) {
        rep.violation(case, "repair:undamaged-error", format!("{res:?}"), json!({"config": h.cfg.desc}));
    }
    rep.class("repair/undamaged".to_string());
    // (2) lose one pack (or one index entry), repair index, repair snapshots
    let rk = h.rk();
    let st = h.uni.state(0);
    let Ok(view) = index_view(&rk, &st) else { return };
    let packs: Vec<Id> = view.packs.keys().copied().collect();
    if packs.is_empty() {
        return;
    }
    let victim = packs[r.usize_below(packs.len())];
    let victim_is_tree = view.packs[&victim].blobs.first().is_some_and(|b| b.tpe == "tree");
    let lost_blobs: BTreeSet<Id> = view.packs[&victim].blobs.iter().filter(|b| view.blobs.get(&(b.tpe.clone(), b.id)).is_some_and(|l| l.len() == 1)).map(|b| b.id).collect();
    {
        let mut g = h.uni.lock();
        let _ = g.stores[0].del(FileType::Pack, &victim);
    }
    // how many files of each snapshot really depend on a lost data blob (raw walk of the trees before the damage)
    fn files_touching(rk: &crate::rawrepo::RawKey, st: &crate::store::StoreState, view: &crate::rawrepo::IndexView, tree: &Id, lost: &BTreeSet<Id>) -> Result<usize, String> {
        let data = crate::rawrepo::read_blob(rk, st, view, "tree", tree)?;
        let v: serde_json::Value = serde_json::from_slice(&data).map_err(|e| e.to_string())?;
        let mut n = 0;
        for node in v["nodes"].as_array().cloned().unwrap_or_default() {
            if let Some(sub) = node["subtree"].as_str() {
                n += files_touching(rk, st, view, &sub.parse::<Id>().map_err(|_| "bad id".to_string())?, lost)?;
            }
            if let Some(c) = node["content"].as_array() {
                if c.iter().any(|b| b.as_str().and_then(|x| x.parse::<Id>().ok()).is_some_and(|id| lost.contains(&id))) {
                    n += 1;
                }
            }
        }
        Ok(n)
    }
    let mut may_be_marked: BTreeMap<Id, usize> = BTreeMap::new();
    if !victim_is_tree {
        for (sid, (snap, _)) in &before {
            if let Ok(n) = files_touching(&rk, &st, &view, &snap.tree, &lost_blobs) {
                let _ = may_be_marked.insert(*sid, n);
            }
        }
    }
    let _ = (Cmd::RepairIndex { read_all: false, dry_run: false }).run(&h.env);
    let detail = json!({"config": h.cfg.desc, "lost_pack": victim.to_hex().to_string(), "lost_pack_type": if victim_is_tree { "tree" } else { "data" }, "blobs_lost": lost_blobs.len()});
    // repair_index keeps what is healthy: every other pack that is still in storage stays indexed with the same blobs
    {
        let st2 = h.uni.state(0);
        match index_view(&rk, &st2) {
            Err(e) => rep.violation(case, "repair-index:index-unreadable", e, detail.clone()),
            Ok(v2) => {
                for (pid, p) in &view.packs {
                    if *pid == victim || !st2.has(FileType::Pack, pid) {
                        continue;
                    }
                    match v2.packs.get(pid) {
                        None => {
                            rep.violation(case, "repair-index:dropped-healthy-pack", format!("pack {pid} is intact and was indexed, but is no longer listed after repair_index"), detail.clone());
                            break;
                        }
                        Some(q) if q.blobs != p.blobs => {
                            rep.violation(case, "repair-index:changed-healthy-pack", format!("the index entry of intact pack {pid} changed"), detail.clone());
                            break;
                        }
                        _ => {}
                    }
                }
                rep.count("healthy_packs_compared_after_repair_index", view.packs.len().saturating_sub(1) as u64);
            }
        }
    }
    rep.evaluations += 1;
    match (Cmd::RepairSnapshots { delete: true, dry_run: false }).run(&h.env) {
        Err(p) => {
            rep.violation(case, format!("panic:{}", panic_sig(&p)), format!("repair snapshots panicked: {p}"), detail);
            return;
        }
        Ok(Err(e)) => {
            rep.violation(case, "repair:error", e, detail);
            return;
        }
        Ok(Ok(())) => {}
    }
    let after = match read_each_snapshot(&h.env, r) {
        Ok(a) => a,
        Err(e) => {
            rep.violation(case, "repair:unreadable", e, detail);
            return;
        }
    };
    for (id, (snap, obs)) in &after {
        let obs = match obs {
            Ok(o) => o,
            Err(e) => {
                rep.violation(case, "repair:snapshot-still-unreadable", format!("after repair snapshot {id} is unreadable: {e}"), detail.clone());
                continue;
            }
        };
        // the original of this snapshot
        let orig_id: Id = snap.original.map_or(*id, |o| *o);
        let Some((_, Ok(orig))) = before.get(&orig_id) else { continue };
        // no more files are given up than depended on a lost blob
        if let Some(allowed) = may_be_marked.get(&orig_id) {
            let marked = obs.keys().filter(|k| k.last().is_some_and(|n| n.ends_with(b".repaired"))).count();
            let missing = orig.iter().filter(|(k, e)| matches!(e.kind, Kind::File(_)) && !obs.contains_key(*k)).count();
            if marked > *allowed || missing > *allowed {
                rep.violation(case, "repair:gave-up-healthy-files", format!("snapshot {id}: {marked} files marked .repaired / {missing} original files absent, but only {allowed} file(s) used a blob of the lost pack"), detail.clone());
            }
        }
        for (k, e) in obs {
            let name = k.last().unwrap();
            if name.ends_with(b".repaired") {
                rep.count("files_marked_repaired", 1);
                continue;
            }
            match (&e.kind, orig.get(k).map(|o| &o.kind)) {
                (Kind::File(a), Some(Kind::File(b))) => {
                    if a != b {
                        rep.violation(case, "repair:kept-file-content-changed", format!("snapshot {id}: file {} is kept unmarked but its content differs from the original", pk_display(k)), detail.clone());
                    }
                }
                (Kind::File(_), None) => rep.violation(case, "repair:phantom-file", format!("snapshot {id}: file {} did not exist in the original", pk_display(k)), detail.clone()),
                _ => {}
            }
        }
    }
    match catch(|| h.env.open().and_then(|repo| check_full(&repo).map_err(|e| errstr(&e)))) {
        Ok(Ok(errs)) => {
            if let Some(e) = errs.first() {
                rep.violation(case, "repair:check-after", format!("check after repair: {e}"), detail.clone());
            }
        }
        other => rep.violation(case, "repair:check-failed", format!("{other:?}"), detail.clone()),
    }
    rep.class(format!("repair/lost-{}-pack", if victim_is_tree { "tree" } else { "data" }));
    let _ = Universe::new;
}

pub fn run(ctx: &Ctx) -> (Report, Meta) {
    let mut rep = run_cases(ctx, ctx.tier.pick(40, 1500), &copy_case);
    for (i, f) in [merge_case as fn(&Ctx, u64, &mut Rng, &mut Report), rewrite_case, repair_case].iter().enumerate() {
        let mut c = ctx.clone();
        c.seed ^= 0x12a + i as u64;
        let off = (i as u64 + 1) * 1_000_000;
        let n = match i {
            0 => ctx.tier.pick(60, 2500),
            1 => ctx.tier.pick(60, 2500),
            _ => ctx.tier.pick(40, 1500),
        };
        c.case_base = off;
        rep.merge(run_cases(&c, n, &|cx, j, r, rep| f(cx, j + off, r, rep)));
    }
    let meta = Meta {
        level: "exploration",
        rule: "copy: generated source and destination repositories with different keys/configs (destination empty / holding part of the content / unrelated content / having received the snapshots before, forgotten some and quick-pruned; tree-data id collisions), every copied snapshot must read back identically in the destination, destination check(read_data) clean, second copy writes nothing. merge: 2-4 snapshots of diverging generated trees (names incl. escaped bytes and invalid UTF-8) merged with last_modified_node vs a reference merge on models (newest wins, directories merged), result strictly name-ordered, inputs untouched; cases with equal-mtime ties between different versions are skipped as ambiguous. rewrite: excluding globs in four forms (!/r/a/b anchored literal, !*.tmp base-name suffix, !/r/dir whole directory, !name/ directory-only base name with a plain file of the same name elsewhere) vs (model minus excluded paths), forget on/off, original snapshot kept/removed accordingly. repair snapshots: undamaged => zero storage events; after losing a pack + repair_index => every intact pack is still indexed with the same blobs, no more files are given up than used a blob of the lost pack, every file kept without the .repaired suffix has its original bytes, all snapshots readable, check clean. distinct_nontrivial = distinct class labels per sub-check".to_string(),
        exhaustive: false,
        assumptions: vec!["rewrite patterns use a glob-neutral alphabet for literals; whitelist patterns, character classes and escapes are not generated".to_string()],
    };
    (rep, meta)
}
