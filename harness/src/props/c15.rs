//! C15 Append-only and dry-run modes never remove or overwrite stored data

use std::sync::{Arc, Mutex};

use bytesize::ByteSize;
use rustic_core::{ConfigOptions, FileType};
use serde_json::json;

use crate::{
    cmds::{Cmd, Env, PruneSpec},
    evidence::{Ctx, Meta, Report, panic_sig, run_cases},
    model::{ALL_EDITS, apply_edit},
    props::c03::{Scenario, build_scenario},
    rng::Rng,
    store::{Op, Universe, ev_desc},
};

fn is_sip(t: FileType) -> bool {
    matches!(t, FileType::Snapshot | FileType::Index | FileType::Pack)
}

fn gen_cmd(r: &mut Rng, sc: &Scenario, model: &mut crate::model::ModelTree, other: &Option<Env>, t: i64) -> Cmd {
    match r.below(14) {
        0 | 1 => {
            for _ in 0..r.range(0, 2) {
                let k = r.pick(&ALL_EDITS).clone();
                let _ = apply_edit(r, model, &k, &sc.tp);
            }
            Cmd::Backup { model: model.clone(), force: r.chance(1, 2), time: t, dry_run: false }
        }
        2 => Cmd::Forget { positions: vec![r.usize_below(3)] },
        3 | 4 => Cmd::Prune { spec: PruneSpec::generate(r, sc.cfg.version == 2) },
        5 => match other {
            Some(o) => Cmd::CopyFrom { src: o.clone() },
            None => Cmd::Forget { positions: vec![0, 1] },
        },
        6 => Cmd::Merge { positions: vec![0, 1], delete: r.chance(1, 2) },
        7 => Cmd::Rewrite { exclude: vec!["!*.x".to_string()], forget: r.chance(1, 2), dry_run: false },
        8 => Cmd::RepairIndex { read_all: r.chance(1, 2), dry_run: false },
        9 => Cmd::RepairSnapshots { delete: r.chance(1, 2), dry_run: false },
        10 => Cmd::ApplyConfig { opts: ConfigOptions::default().set_treepack_size(ByteSize(r.range(1000, 100_000))) },
        11 => Cmd::ApplyConfig { opts: ConfigOptions::default().set_append_only(true).set_datapack_size(ByteSize(r.range(1000, 100_000))) },
        12 => Cmd::Forget { positions: vec![0, 1, 2] },
        _ => Cmd::Rewrite { exclude: vec![], forget: true, dry_run: false },
    }
}

/// does the model say this command has to be refused on an append-only repository?
fn must_refuse(c: &Cmd) -> bool {
    match c {
        Cmd::Prune { .. } | Cmd::RepairIndex { dry_run: false, .. } | Cmd::ApplyConfig { .. } => true,
        Cmd::Forget { positions } => !positions.is_empty(),
        Cmd::Merge { delete, .. } => *delete,
        Cmd::Rewrite { forget, dry_run, .. } => *forget && !*dry_run,
        Cmd::RepairSnapshots { delete, dry_run } => *delete && !*dry_run,
        _ => false,
    }
}

fn append_only_program(ctx: &Ctx, case: u64, r: &mut Rng, rep: &mut Report) {
    let _ = ctx;
    let sc = match build_scenario(r, 3) {
        Ok(s) => s,
        Err(e) => {
            rep.inconclusive(format!("scenario: {e}"));
            return;
        }
    };
    let uni = Universe::from_states(sc.base.clone());
    let env = Env::single(uni.clone(), sc.key.clone());
    // half of the repositories hold packs no index knows: what a backup that is still running (or was interrupted)
    // has uploaded so far
    if r.chance(1, 2) {
        let copy = Universe::from_states(sc.base.clone());
        copy.lock().recording = false;
        let env2 = Env::single(copy.clone(), sc.key.clone());
        let _ = (Cmd::Backup { model: sc.next_model.clone(), force: true, time: 1_700_999_000, dry_run: false }).run(&env2);
        let st2 = copy.state(0);
        let mut n = 0u64;
        let mut g = uni.lock();
        for id in st2.ids(FileType::Pack) {
            if !g.stores[0].has(FileType::Pack, &id) {
                let _ = g.stores[0].put(FileType::Pack, &id, st2.get(FileType::Pack, &id).unwrap().clone());
                n += 1;
            }
        }
        drop(g);
        rep.count("unindexed_packs_planted", n);
    }
    // switch to append-only (allowed change)
    if let Err(e) = (Cmd::ApplyConfig { opts: ConfigOptions::default().set_append_only(true) }).run(&env).unwrap_or_else(|p| Err(p)) {
        rep.violation(case, "set-append-only-failed", e, json!({"config": sc.cfg.desc}));
        return;
    }
    // a second repository to copy from
    let other = {
        let mut r2 = r.fork(5);
        build_scenario(&mut r2, 1).ok().filter(|o| o.cfg.rabin == sc.cfg.rabin).map(|o| {
            let u = Universe::from_states(o.base.clone());
            u.lock().recording = false;
            Env::single(u, o.key.clone())
        })
    };
    // online monitor: violations are pushed at the moment the event is recorded
    let hits: Arc<Mutex<Vec<String>>> = Arc::new(Mutex::new(Vec::new()));
    {
        let hits = hits.clone();
        uni.add_monitor(Box::new(move |ev, _| {
            let mut v = None;
            if is_sip(ev.tpe) {
                if ev.op == Op::Remove {
                    v = Some(format!("remove of a stored {} file was issued on an append-only repository: {}", crate::store::ft_name(ev.tpe), ev_desc(ev)));
                } else if ev.op == Op::Write && ev.overwrote_same == Some(false) {
                    v = Some(format!("an existing {} file was overwritten with different bytes: {}", crate::store::ft_name(ev.tpe), ev_desc(ev)));
                }
            }
            if let Some(x) = &v {
                hits.lock().unwrap().push(x.clone());
            }
            v
        }));
    }
    let n = r.range(3, 10);
    let mut model = sc.next_model.clone();
    let mut program = Vec::new();
    for step in 0..n {
        let cmd = gen_cmd(r, &sc, &mut model, &other, 1_701_000_000 + step as i64 * 500);
        program.push(cmd.name());
        uni.clear_log();
        let before = hits.lock().unwrap().len();
        let res = cmd.run(&env);
        rep.evaluations += 1;
        let log = uni.take_log();
        let mutating: Vec<String> = log.iter().filter(|e| e.op.mutating()).map(ev_desc).collect();
        rep.count("storage_events_observed", log.len() as u64);
        let detail = json!({"config": sc.cfg.desc, "program": program, "step": step});
        let new_hits: Vec<String> = hits.lock().unwrap()[before..].to_vec();
        for h in new_hits.iter().take(2) {
            rep.violation(case, format!("append-only:{}:{}", cmd.kind(), if h.starts_with("remove") { "remove" } else { "overwrite" }), format!("step {step} `{}`: {h}", cmd.name()), detail.clone());
        }
        match res {
            Err(p) => rep.violation(case, format!("panic:{}", panic_sig(&p)), format!("step {step} `{}` panicked: {p}", cmd.name()), detail.clone()),
            Ok(r0) => {
                if must_refuse(&cmd) {
                    rep.count("destructive_commands_tried", 1);
                    rep.class(format!("refuse/{}", cmd.kind()));
                    if r0.is_ok() {
                        rep.violation(case, format!("append-only:{}:not-refused", cmd.kind()), format!("step {step} `{}` must be refused on an append-only repository but returned Ok", cmd.name()), detail.clone());
                    }
                    // merge+delete is a composite of an allowed operation (merge writes new trees and a
                    // snapshot) and a refused one (delete_snapshots): only its removal part must not touch storage,
                    // which the online monitor checks
                    if !mutating.is_empty() && !matches!(cmd, Cmd::Merge { .. }) {
                        rep.violation(case, format!("append-only:{}:touched-storage", cmd.kind()), format!("step {step} `{}` is refused but issued storage operations first: {:?}", cmd.name(), &mutating[..mutating.len().min(4)]), detail.clone());
                    }
                } else {
                    rep.class(format!("allowed/{}", cmd.kind()));
                    if let Err(e) = r0 {
                        // allowed commands may still fail for other reasons (e.g. nothing to merge); only count
                        rep.set_add("allowed_command_errors", format!("{}: {}", cmd.kind(), e.chars().take(80).collect::<String>()));
                    }
                }
            }
        }
    }
    // leaving append-only mode is the one allowed config change
    uni.clear_monitors();
    match (Cmd::ApplyConfig { opts: ConfigOptions::default().set_append_only(false) }).run(&env) {
        Ok(Ok(())) => {}
        other => rep.violation(case, "unset-append-only-failed", format!("{other:?}"), json!({"program": program})),
    }
    if case % 17 == 0 {
        rep.sample(json!({"kind": "append-only program", "config": sc.cfg.desc, "program": program}));
    }
}

fn dry_run_case(_ctx: &Ctx, case: u64, r: &mut Rng, rep: &mut Report) {
    let sc = match build_scenario(r, 3) {
        Ok(s) => s,
        Err(e) => {
            rep.inconclusive(format!("scenario: {e}"));
            return;
        }
    };
    // damaged variants for the repair commands
    let mut states = vec![("intact", sc.base.clone())];
    {
        let mut st = sc.base.clone();
        let packs = st[0].ids(FileType::Pack);
        if !packs.is_empty() {
            let v = packs[r.usize_below(packs.len())];
            let _ = st[0].del(FileType::Pack, &v);
            states.push(("pack-lost", st));
        }
        let mut st = sc.base.clone();
        let idx = st[0].ids(FileType::Index);
        if !idx.is_empty() {
            let v = idx[r.usize_below(idx.len())];
            let _ = st[0].del(FileType::Index, &v);
            states.push(("index-lost", st));
        }
    }
    for (sname, st) in states {
        let cmds = vec![
            Cmd::Backup { model: sc.next_model.clone(), force: r.chance(1, 2), time: 1_702_000_000, dry_run: true },
            Cmd::Rewrite { exclude: vec!["!*".to_string()], forget: r.chance(1, 2), dry_run: true },
            Cmd::Rewrite { exclude: vec![], forget: true, dry_run: true },
            Cmd::RepairIndex { read_all: r.chance(1, 2), dry_run: true },
            Cmd::RepairSnapshots { delete: true, dry_run: true },
            Cmd::RepairSnapshots { delete: false, dry_run: true },
        ];
        for cmd in cmds {
            let uni = Universe::from_states(st.clone());
            let env = Env::single(uni.clone(), sc.key.clone());
            let before = uni.snapshot();
            let res = cmd.run(&env);
            rep.evaluations += 1;
            // detached library threads may still be at work after the call has returned
            uni.settle(std::time::Duration::from_millis(60), std::time::Duration::from_millis(600));
            let log = uni.take_log();
            rep.count("storage_events_observed", log.len() as u64);
            let mutating: Vec<String> = log.iter().filter(|e| e.op.mutating()).map(ev_desc).collect();
            let detail = json!({"config": sc.cfg.desc, "state": sname, "command": cmd.name()});
            if let Err(p) = &res {
                rep.violation(case, format!("panic:{}", panic_sig(p)), format!("dry-run `{}` on {sname} repository panicked: {p}", cmd.name()), detail.clone());
            }
            if !mutating.is_empty() || uni.snapshot() != before {
                rep.violation(
                    case,
                    format!("dry-run:{}:wrote", cmd.kind()),
                    format!("dry-run `{}` on {sname} repository issued storage writes/removes: {:?}", cmd.name(), &mutating[..mutating.len().min(5)]),
                    detail.clone(),
                );
            }
            rep.class(format!("dry/{}/{sname}", cmd.kind()));
        }
        // prune_plan is prune's dry form
        {
            let uni = Universe::from_states(st.clone());
            let env = Env::single(uni.clone(), sc.key.clone());
            let spec = PruneSpec::generate(r, sc.cfg.version == 2);
            rep.evaluations += 1;
            let res = crate::evidence::catch(|| env.open().and_then(|repo| repo.prune_plan(&spec.to_lib()).map(|_| ()).map_err(|e| crate::repo::errstr(&e))));
            let log = uni.take_log();
            let mutating: Vec<String> = log.iter().filter(|e| e.op.mutating()).map(ev_desc).collect();
            if let Err(p) = &res {
                rep.violation(case, format!("panic:{}", panic_sig(p)), format!("prune_plan on {sname} repository panicked: {p}"), json!({"spec": format!("{spec:?}")}));
            }
            if !mutating.is_empty() {
                rep.violation(case, "dry-run:prune_plan:wrote", format!("prune_plan issued storage writes/removes: {mutating:?}"), json!({"spec": format!("{spec:?}")}));
            }
            rep.class(format!("dry/prune_plan/{sname}"));
        }
    }
    // result equality: dry-run backup yields the tree id of the real backup
    {
        let uni = Universe::from_states(sc.base.clone());
        let env = Env::single(uni.clone(), sc.key.clone());
        let run = |dry: bool| -> Result<rustic_core::repofile::SnapshotFile, String> {
            let repo = env.ids()?;
            crate::repo::backup_model(&repo, &sc.next_model, crate::model::Frag::Whole, &rustic_core::BackupOptions::default().dry_run(dry), crate::repo::snap_at(1_702_000_000, "h")).map_err(|e| crate::repo::errstr(&e))
        };
        rep.evaluations += 1;
        if let (Ok(d), Ok(real)) = (run(true), run(false)) {
            if d.tree != real.tree {
                rep.violation(case, "dry-run:backup:different-tree", "dry-run backup reports a different tree id than the real backup".to_string(), json!({"config": sc.cfg.desc}));
            }
        }
    }
    if case % 5 == 0 {
        rep.sample(json!({"kind": "dry-run sweep", "config": sc.cfg.desc}));
    }
}

pub fn run(ctx: &Ctx) -> (Report, Meta) {
    let n_prog = ctx.tier.pick(60u64, 2500);
    let n_dry = ctx.tier.pick(8u64, 300);
    let mut rep = run_cases(ctx, n_prog, &append_only_program);
    let mut c2 = ctx.clone();
    c2.seed ^= 0xd7;
    rep.merge({ let mut cb = c2.clone(); cb.case_base = 1_000_000; run_cases(&cb, n_dry, &|c, i, r, rep| dry_run_case(c, i + 1_000_000, r, rep)) });
    let meta = Meta {
        level: "fault_enumeration",
        rule: "append-only: random programs of 3-10 public repository operations (backup, forget, prune with generated options, copy-into, merge(+delete), rewrite(+forget), repair index, repair snapshots(+delete), config changes) on a repository switched to append-only (half of them holding packs of a backup in progress that no index lists yet), with an ONLINE monitor in the storage universe that fires on any remove of a snapshot/index/pack file and on any overwrite with different bytes; commands the model classifies as destructive must return Err with zero mutating storage events. dry-run: every command with a dry-run switch (+ prune_plan) on intact / pack-lost / index-lost repositories must produce zero write/remove events, judged after the storage has been quiet for 60 ms (detached library threads); dry-run backup tree id == real one. distinct_nontrivial = distinct (refuse|allowed|dry, command kind, repository state)".to_string(),
        exhaustive: false,
        assumptions: vec![
            "key files are outside the statement (it names snapshot, index and pack files); key removal is not judged".to_string(),
            "restore's dry-run (prepare_restore) is judged in C14 where the destination manifest is available; hot/cold repair dry-run in C16".to_string(),
        ],
    };
    (rep, meta)
}
