pub mod c06;

use crate::evidence::{Ctx, Meta, Report};

pub fn dispatch(ctx: &Ctx) -> Option<(Report, Meta)> {
    Some(match ctx.prop.as_str() {
        "C06" => c06::run(ctx),
        _ => return None,
    })
}
