//! C11 Incremental backup with a parent equals a full backup

use std::{collections::BTreeMap, path::Path};

use rustic_core::{BackupOptions, FileType, Id, ParentOptions, repofile::SnapshotFile};
use serde_json::json;

use crate::{
    cmds::{Cmd, Env, read_each_snapshot},
    evidence::{Ctx, Meta, Report, catch, panic_sig, run_cases},
    model::{ALL_EDITS, EditKind, Frag, Kind, ModelTree, apply_edit, pk_to_path, synth_node},
    observe::{CmpOpts, diff_model, observe_ls_dump},
    props::c02::{H, setup},
    repo::{ROOT, backup_dir, check_full, errstr, snap_at},
    rng::Rng,
    store::Universe,
};

/// synthetic source with explicit control over ctime / inode
thread_local! {
    /// paths whose ctime is later than their mtime in the next synthetic source (content replaced in place, mtime put back)
    static CTIME_BUMP: std::cell::RefCell<std::collections::BTreeSet<crate::model::PathKey>> = const { std::cell::RefCell::new(std::collections::BTreeSet::new()) };
}

fn synth(model: &ModelTree, ctime_mode: u8, inode_base: u64) -> crate::model::SynthSource {
    let root = std::path::PathBuf::from(ROOT);
    let mut entries = Vec::new();
    let bump = CTIME_BUMP.with(|b| b.borrow().clone());
    for (i, (k, e)) in model.entries.iter().enumerate() {
        let mut node = synth_node(k.last().unwrap(), e);
        match ctime_mode {
            0 => {
                // ctime = mtime, unless the file was rewritten in place with its mtime restored
                if bump.contains(k) {
                    node.meta.ctime = Some(crate::model::ts((e.mtime.0 + 1000, 0)));
                }
            }
            1 => node.meta.ctime = None, // no ctime recorded
            _ => {}
        }
        node.meta.inode = if inode_base == 0 { 0 } else { inode_base + i as u64 };
        entries.push(crate::model::SynthEntry {
            path: root.join(pk_to_path(k)),
            node,
            data: match &e.kind {
                Kind::File(b) => Some(b.clone()),
                _ => None,
            },
        });
    }
    crate::model::SynthSource { entries, frag: Frag::Whole }
}

fn backup_synth(env: &Env, model: &ModelTree, opts: &BackupOptions, t: i64, ctime_mode: u8, inode_base: u64) -> Result<SnapshotFile, String> {
    let repo = env.ids()?;
    let src = synth(model, ctime_mode, inode_base);
    repo.archive(opts, &src, snap_at(t, "h"), &[std::path::PathBuf::from(ROOT)]).map_err(|e| format!("backup: {}", errstr(&e)))
}

fn clone_env(h: &H) -> Env {
    let u = Universe::from_states(h.uni.snapshot());
    u.lock().recording = false;
    Env::single(u, h.key.clone())
}

/// number of files whose (type, size, mtime) is unchanged between two models (premise: may be reported unmodified)
fn may_be_unmodified(a: &ModelTree, b: &ModelTree) -> u64 {
    b.entries
        .iter()
        .filter(|(k, e)| !matches!(e.kind, Kind::Dir) && a.entries.get(*k).is_some_and(|o| std::mem::discriminant(&o.kind) == std::mem::discriminant(&e.kind) && o.mtime == e.mtime && size_of(o) == size_of(e)))
        .count() as u64
}

fn size_of(e: &crate::model::Entry) -> usize {
    match &e.kind {
        Kind::File(b) => b.len(),
        _ => 0,
    }
}

fn synth_case(_ctx: &Ctx, case: u64, r: &mut Rng, rep: &mut Report) {
    let mut h = match setup(r) {
        Ok(h) => h,
        Err(e) => {
            rep.inconclusive(format!("setup: {e}"));
            return;
        }
    };
    let ctime_mode = r.below(2) as u8;
    let inode_base = *r.pick(&[0u64, 1000]);
    let t0 = 1_700_000_000;
    // parent state(s)
    let m1 = h.model.clone();
    let s1 = match backup_synth(&h.env, &m1, &BackupOptions::default().parent_opts(ParentOptions::default().force(true)), t0, ctime_mode, inode_base) {
        Ok(s) => s,
        Err(e) => {
            rep.violation(case, "backup-error", e, json!({"config": h.cfg.desc}));
            return;
        }
    };
    let two_parents = r.chance(1, 4);
    let mut parent_ids = vec![s1.id.to_string()];
    let mut m1b = m1.clone();
    if two_parents {
        for _ in 0..2 {
            let k = r.pick(&ALL_EDITS).clone();
            let _ = apply_edit(r, &mut m1b, &k, &h.tp);
        }
        if let Ok(s) = backup_synth(&h.env, &m1b, &BackupOptions::default().parent_opts(ParentOptions::default().force(true)), t0 + 10, ctime_mode, inode_base) {
            parent_ids.push(s.id.to_string());
        }
    }
    // edits (every content change bumps mtime in apply_edit: the premise of the property holds)
    let mut m2 = if two_parents && r.chance(1, 2) { m1b.clone() } else { m1.clone() };
    let mut edits = Vec::new();
    let unchanged = r.chance(1, 5);
    if !unchanged {
        for _ in 0..r.range(1, 4) {
            let k = r.pick(&ALL_EDITS).clone();
            if let Some(d) = apply_edit(r, &mut m2, &k, &h.tp) {
                edits.push((k, d));
            }
        }
    }
    // the premise, against EVERY parent state: a file whose content differs from a parent's version also differs from it
    // in size or mtime (two edit scripts starting from the same state can bump an mtime to the same value)
    {
        let parents: Vec<&ModelTree> = if two_parents { vec![&m1, &m1b] } else { vec![&m1] };
        let keys: Vec<crate::model::PathKey> = m2.entries.keys().cloned().collect();
        for k in keys {
            loop {
                let e = &m2.entries[&k];
                let Kind::File(b) = &e.kind else { break };
                let clash = parents.iter().any(|p| p.entries.get(&k).is_some_and(|o| matches!(&o.kind, Kind::File(ob) if ob != b && ob.len() == b.len()) && o.mtime == e.mtime));
                if !clash {
                    break;
                }
                m2.entries.get_mut(&k).unwrap().mtime.0 += 7;
                rep.count("mtime_clashes_between_parent_states_resolved", 1);
            }
        }
    }
    // a changed file may just as well carry an OLDER mtime than the parent's version (restored from an archive, clock set
    // back): still a changed mtime
    if !two_parents {
        let keys: Vec<crate::model::PathKey> = m2.entries.keys().cloned().collect();
        for k in keys {
            let (Some(o), Some(e)) = (m1.entries.get(&k), m2.entries.get(&k)) else { continue };
            if let (Kind::File(ob), Kind::File(nb)) = (&o.kind, &e.kind) {
                if ob != nb && ob.len() == nb.len() && r.chance(1, 2) {
                    let older = (o.mtime.0 - 1 - r.irange(0, 5000), o.mtime.1);
                    m2.entries.get_mut(&k).unwrap().mtime = older;
                    rep.count("changed_files_with_older_mtime", 1);
                }
            }
        }
    }
    // inodes may change (file replaced) - irrelevant for the statement
    let inode_base2 = if inode_base != 0 && r.chance(1, 3) { 5000 } else { inode_base };
    let ign_ctime = r.chance(1, 3);
    let ign_inode = r.chance(1, 3);
    // content replaced in place with the same size and the mtime put back: only the change time gives it away, which
    // is within the premise exactly when a ctime is recorded and not ignored
    let mut stealth = std::collections::BTreeSet::new();
    if ctime_mode == 0 && !ign_ctime && !two_parents && r.chance(1, 2) {
        let cands: Vec<crate::model::PathKey> = m2
            .entries
            .iter()
            .filter(|(k, e)| size_of(e) > 0 && m1.entries.get(*k).is_some_and(|o| matches!(o.kind, Kind::File(_)) && o.mtime == e.mtime && size_of(o) == size_of(e)))
            .map(|(k, _)| k.clone())
            .collect();
        for k in r.subset(&cands, 1, 2) {
            if let Some(e) = m2.entries.get_mut(&k) {
                if let Kind::File(b) = &e.kind {
                    let mut v = b.as_ref().clone();
                    let i = r.usize_below(v.len());
                    v[i] ^= 0x5a;
                    e.kind = Kind::File(std::sync::Arc::new(v));
                    let _ = stealth.insert(k.clone());
                }
            }
        }
        if !stealth.is_empty() {
            rep.count("in_place_changes_visible_through_ctime_only", stealth.len() as u64);
            edits.push((crate::model::EditKind::ModifySameSize, format!("{} file(s) rewritten in place, mtime restored, ctime later", stealth.len())));
        }
    }
    CTIME_BUMP.with(|b| *b.borrow_mut() = stealth.clone());
    let popts = ParentOptions::default()
        .ignore_ctime(ign_ctime)
        .ignore_inode(ign_inode)
        .parents(if two_parents || r.chance(1, 3) { parent_ids.clone() } else { Vec::new() });
    let skip = r.chance(1, 3);
    let popts = popts.skip_if_unchanged(skip);
    let detail = json!({"config": h.cfg.desc, "edits": edits.iter().map(|e| e.1.clone()).collect::<Vec<_>>(), "parents": parent_ids.len(), "ctime_recorded": ctime_mode == 0, "inodes": inode_base != 0, "opts": format!("{popts:?}")});
    // (a) parent-based on one clone, (b) forced on another clone
    let env_a = clone_env(&h);
    let env_b = clone_env(&h);
    rep.evaluations += 1;
    let ra = catch(|| backup_synth(&env_a, &m2, &BackupOptions::default().parent_opts(popts.clone()), t0 + 100, ctime_mode, inode_base2));
    let rb = catch(|| backup_synth(&env_b, &m2, &BackupOptions::default().parent_opts(ParentOptions::default().force(true)), t0 + 100, ctime_mode, inode_base2));
    CTIME_BUMP.with(|b| b.borrow_mut().clear());
    let (sa, sb) = match (ra, rb) {
        (Ok(Ok(a)), Ok(Ok(b))) => (a, b),
        (Err(p), _) | (_, Err(p)) => {
            rep.violation(case, format!("panic:{}", panic_sig(&p)), format!("backup panicked: {p}"), detail);
            return;
        }
        (a, b) => {
            rep.violation(case, "backup-error", format!("{:?} / {:?}", a.map(|x| x.map(|s| s.id)), b.map(|x| x.map(|s| s.id))), detail);
            return;
        }
    };
    if sa.tree != sb.tree {
        // find the difference for the report
        let mut why = String::new();
        if let Ok(repo) = env_a.full() {
            if let Ok(obs) = observe_ls_dump(&repo, &sa, r, 0) {
                why = diff_model(&m2, &obs, CmpOpts::ALL).first().cloned().unwrap_or_else(|| "content equal, metadata differs (tree ids differ)".to_string());
            }
        }
        rep.violation(case, "parent-tree-differs-from-full", format!("the parent-based backup produced tree {} but a full backup of the same source {}: {why}", sa.tree, sb.tree), detail.clone());
    } else {
        rep.count("tree_ids_equal_to_forced_backup", 1);
    }
    // skip_if_unchanged: snapshot written iff tree differs from the (first) parent's
    let written = env_a.uni.state(0).has(FileType::Snapshot, &sa.id) && !sa.id.is_null();
    if skip {
        let parent_tree = if popts.parents.is_empty() { if two_parents { None } else { Some(s1.tree) } } else { Some(s1.tree) };
        if let Some(pt) = parent_tree {
            let expect_written = sa.tree != pt;
            if written != expect_written {
                rep.violation(case, "skip-if-unchanged", format!("skip_if_unchanged: snapshot written = {written}, tree equals parent's = {}", !expect_written), detail.clone());
            }
            rep.count("skip_if_unchanged_cases", 1);
        }
    } else if !written {
        rep.violation(case, "snapshot-not-written", "backup without skip_if_unchanged did not save a snapshot".to_string(), detail.clone());
    }
    // unmodified count must respect the premise (compare with every parent state)
    if let Some(sum) = &sa.summary {
        let allowed = (may_be_unmodified(&m1, &m2) - stealth.len() as u64).max(if two_parents { may_be_unmodified(&m1b, &m2) + may_be_unmodified(&m1, &m2) } else { 0 });
        if sum.files_unmodified > allowed {
            rep.violation(case, "reported-unmodified-too-many", format!("{} files reported unmodified but only {allowed} kept type, size and mtime", sum.files_unmodified), detail.clone());
        }
        rep.count("files_reported_unmodified", sum.files_unmodified);
        rep.count("files_reported_changed_or_new", sum.files_changed + sum.files_new);
    }
    // both read back equal to the model
    if written {
        match env_a.full().and_then(|repo| observe_ls_dump(&repo, &sa, r, 0)) {
            Err(e) => rep.violation(case, "unreadable", e, detail.clone()),
            Ok(obs) => {
                if let Some(d) = diff_model(&m2, &obs, CmpOpts::ALL).first() {
                    rep.violation(case, format!("content:{}", d.split(' ').next().unwrap_or("?")), format!("parent-based snapshot differs from the source: {d}"), detail.clone());
                }
            }
        }
    }
    for (k, _) in &edits {
        rep.class(format!("synth/{k:?}/{}{}", if two_parents { "2parents" } else { "1parent" }, if ctime_mode == 1 { "/noctime" } else { "" }));
    }
    if unchanged {
        rep.class("synth/unchanged".to_string());
    }
    h.model = m2;
    if case % 29 == 0 {
        rep.sample(detail);
    }
}

/// parent whose blobs were partly pruned: the file must be read again
fn pruned_parent_case(_ctx: &Ctx, case: u64, r: &mut Rng, rep: &mut Report) {
    let mut h = match setup(r) {
        Ok(h) => h,
        Err(e) => {
            rep.inconclusive(format!("setup: {e}"));
            return;
        }
    };
    if h.backup(true).is_err() {
        return;
    }
    // lose one data pack, repair the index
    let rk = h.rk();
    let st = h.uni.state(0);
    let Ok(view) = crate::rawrepo::index_view(&rk, &st) else { return };
    // a data pack (files must be read again) or a tree pack (directories - possibly the root - must be stored again)
    let want_tree = r.chance(1, 2);
    let cands: Vec<Id> = view.packs.iter().filter(|(_, p)| p.blobs.first().is_some_and(|b| (b.tpe == "tree") == want_tree)).map(|(id, _)| *id).collect();
    if cands.is_empty() {
        return;
    }
    let victim = cands[r.usize_below(cands.len())];
    rep.count(if want_tree { "parents_with_lost_tree_pack" } else { "parents_with_lost_data_pack" }, 1);
    {
        let mut g = h.uni.lock();
        let _ = g.stores[0].del(FileType::Pack, &victim);
    }
    let _ = Cmd::RepairIndex { read_all: false, dry_run: false }.run(&h.env);
    rep.evaluations += 1;
    let detail = json!({"config": h.cfg.desc, "lost_pack": victim.to_hex().to_string(), "lost_pack_type": if want_tree { "tree" } else { "data" }});
    // backup again with the (damaged) parent; source unchanged
    match catch(|| h.backup(false)) {
        Err(p) => rep.violation(case, format!("panic:{}", panic_sig(&p)), format!("backup with a partly pruned parent panicked: {p}"), detail),
        Ok(Err(e)) => rep.violation(case, "backup-error", e, detail),
        Ok(Ok(id)) => {
            match read_each_snapshot(&h.env, r) {
                Err(e) => rep.violation(case, "unreadable", e, detail.clone()),
                Ok(m) => match m.get(&id).map(|x| &x.1) {
                    Some(Ok(obs)) => {
                        if let Some(d) = diff_model(&h.model, obs, CmpOpts::ALL).first() {
                            rep.violation(case, "pruned-parent:content", format!("new snapshot differs from the source: {d}"), detail.clone());
                        }
                    }
                    other => rep.violation(case, "pruned-parent:reused-missing-blobs", format!("the new snapshot is not readable: a file was reused from the parent although its chunks are gone: {:?}", other.map(|x| x.as_ref().err())), detail.clone()),
                },
            }
            // the old (damaged) snapshot is expected to be broken; after forgetting it check must be clean
            let ids: Vec<Id> = h.uni.state(0).ids(FileType::Snapshot).into_iter().filter(|s| *s != id).collect();
            if let Ok(repo) = h.env.open() {
                let sids: Vec<rustic_core::repofile::SnapshotId> = ids.iter().map(|i| (*i).into()).collect();
                let _ = repo.delete_snapshots(&sids);
            }
            match catch(|| h.env.open().and_then(|repo| check_full(&repo).map_err(|e| errstr(&e)))) {
                Ok(Ok(errs)) => {
                    if let Some(e) = errs.first() {
                        rep.violation(case, "pruned-parent:check", format!("check after re-backup: {e}"), detail);
                    }
                }
                other => rep.violation(case, "pruned-parent:check-failed", format!("{other:?}"), detail),
            }
            rep.class(format!("pruned-parent/{}", if want_tree { "tree-pack" } else { "data-pack" }));
        }
    }
}

fn sync_dir(dir: &Path, old: &ModelTree, new: &ModelTree) -> std::io::Result<()> {
    use std::os::unix::fs::PermissionsExt;
    // removals (deepest first)
    for (k, e) in old.entries.iter().rev() {
        let keep = new.entries.get(k).is_some_and(|n| std::mem::discriminant(&n.kind) == std::mem::discriminant(&e.kind));
        if !keep {
            let p = dir.join(pk_to_path(k));
            if matches!(e.kind, Kind::Dir) {
                let _ = std::fs::remove_dir_all(&p);
            } else {
                let _ = std::fs::remove_file(&p);
            }
        }
    }
    for (k, e) in &new.entries {
        let p = dir.join(pk_to_path(k));
        let same = old.entries.get(k).is_some_and(|o| o == e);
        if same && p.symlink_metadata().is_ok() {
            continue;
        }
        match &e.kind {
            Kind::Dir => std::fs::create_dir_all(&p)?,
            Kind::File(b) => {
                // rewrite in place (keeps the inode when the file exists)
                std::fs::write(&p, b.as_slice())?;
            }
            Kind::Symlink(t) => {
                let _ = std::fs::remove_file(&p);
                std::os::unix::fs::symlink(std::ffi::OsStr::from_bytes(t), &p)?;
            }
        }
    }
    for (k, e) in new.entries.iter().rev() {
        let p = dir.join(pk_to_path(k));
        if !matches!(e.kind, Kind::Symlink(_)) {
            std::fs::set_permissions(&p, std::fs::Permissions::from_mode(e.mode))?;
        }
        let ft = filetime::FileTime::from_unix_time(e.mtime.0, e.mtime.1);
        filetime::set_symlink_file_times(&p, ft, ft)?;
    }
    Ok(())
}
use std::os::unix::ffi::OsStrExt;

/// on-disk realisation: real mtime / ctime / inode from the file system
fn disk_case(ctx: &Ctx, case: u64, r: &mut Rng, rep: &mut Report) {
    let h = match setup(r) {
        Ok(h) => h,
        Err(e) => {
            rep.inconclusive(format!("setup: {e}"));
            return;
        }
    };
    let work = ctx.case_dir(case);
    let src = work.join("src");
    std::fs::create_dir_all(&src).unwrap();
    let m1 = h.model.clone();
    if m1.write_to_disk(&src).is_err() {
        let _ = std::fs::remove_dir_all(&work);
        return;
    }
    let run = |env: &Env, popts: ParentOptions, t: i64| -> Result<SnapshotFile, String> {
        let repo = env.ids()?;
        backup_dir(&repo, &src, &BackupOptions::default().parent_opts(popts), snap_at(t, "h")).map_err(|e| errstr(&e))
    };
    let s1 = match run(&h.env, ParentOptions::default().force(true), 1_700_000_000) {
        Ok(s) => s,
        Err(e) => {
            rep.violation(case, "backup-error", e, json!({"config": h.cfg.desc}));
            let _ = std::fs::remove_dir_all(&work);
            return;
        }
    };
    let mut m2 = m1.clone();
    let mut edits = Vec::new();
    for _ in 0..r.range(0, 3) {
        let k = r.pick(&[EditKind::AddFile, EditKind::RemoveEntry, EditKind::ModifySameSize, EditKind::ModifyGrow, EditKind::Touch, EditKind::Chmod, EditKind::Rename, EditKind::TypeChange, EditKind::InsertBytes]).clone();
        if let Some(d) = apply_edit(r, &mut m2, &k, &h.tp) {
            edits.push(d);
        }
    }
    if sync_dir(&src, &m1, &m2).is_err() {
        let _ = std::fs::remove_dir_all(&work);
        return;
    }
    let ign_ctime = r.chance(1, 4);
    // a file rewritten in place (same size) with its mtime put back: on disk only the change time gives it away, and the
    // harness is fast enough for old and new change time to fall into the same second
    if !ign_ctime && r.chance(1, 2) {
        let cands: Vec<crate::model::PathKey> = m2.entries.iter().filter(|(k, e)| size_of(e) > 0 && e.hardlink.is_none() && m1.entries.get(*k) == Some(*e)).map(|(k, _)| k.clone()).collect();
        if !cands.is_empty() {
            let k = r.pick(&cands).clone();
            let p = src.join(pk_to_path(&k));
            if let Some(Kind::File(b)) = m2.entries.get(&k).map(|e| e.kind.clone()) {
                let mut v = b.as_ref().clone();
                let i = r.usize_below(v.len());
                v[i] ^= 0x3c;
                let mt = m2.entries[&k].mtime;
                use std::os::unix::fs::MetadataExt;
                let ctime_of = |p: &Path| std::fs::symlink_metadata(p).map(|m| (m.ctime(), m.ctime_nsec())).ok();
                let before = ctime_of(&p);
                let mut ok = std::fs::OpenOptions::new().write(true).open(&p).and_then(|mut f| std::io::Write::write_all(&mut f, &v)).is_ok()
                    && filetime::set_file_mtime(&p, filetime::FileTime::from_unix_time(mt.0, mt.1)).is_ok();
                // file systems stamp with a coarse clock: make sure the change time really moved (the premise)
                let mut tries = 0;
                while ok && ctime_of(&p) == before {
                    std::thread::sleep(std::time::Duration::from_millis(5));
                    ok = filetime::set_file_mtime(&p, filetime::FileTime::from_unix_time(mt.0, mt.1)).is_ok();
                    tries += 1;
                    if tries > 100 {
                        rep.inconclusive("change time does not move on this file system".to_string());
                        let _ = std::fs::remove_dir_all(&work);
                        return;
                    }
                }
                if ok {
                    m2.entries.get_mut(&k).unwrap().kind = Kind::File(std::sync::Arc::new(v));
                    edits.push(format!("rewritten in place, mtime restored: {}", crate::model::pk_display(&k)));
                    rep.count("in_place_changes_visible_through_ctime_only_on_disk", 1);
                }
            }
        }
    }
    let detail = json!({"config": h.cfg.desc, "edits": edits, "realisation": "disk"});
    let env_a = clone_env(&h);
    let env_b = clone_env(&h);
    rep.evaluations += 1;
    let popts = ParentOptions::default().ignore_ctime(ign_ctime).ignore_inode(r.chance(1, 4));
    match (catch(|| run(&env_a, popts.clone(), 1_700_000_100)), catch(|| run(&env_b, ParentOptions::default().force(true), 1_700_000_100))) {
        (Ok(Ok(sa)), Ok(Ok(sb))) => {
            if sa.tree != sb.tree {
                rep.violation(case, "parent-tree-differs-from-full", format!("on-disk source: parent-based tree {} != full tree {}", sa.tree, sb.tree), detail.clone());
            } else {
                rep.count("tree_ids_equal_to_forced_backup", 1);
            }
            if sa.parent != Some(s1.id) {
                rep.violation(case, "parent-not-used", format!("latest snapshot {} was not chosen as parent ({:?})", s1.id, sa.parent), detail.clone());
            }
            match env_a.full().and_then(|repo| observe_ls_dump(&repo, &sa, r, 0)) {
                Err(e) => rep.violation(case, "unreadable", e, detail.clone()),
                Ok(obs) => {
                    // directory mtimes on disk are set by sync_dir to the model's values
                    if let Some(d) = diff_model(&m2, &obs, CmpOpts::ALL).first() {
                        rep.violation(case, format!("content:{}", d.split(' ').next().unwrap_or("?")), format!("on-disk source: parent-based snapshot differs from the source: {d}"), detail.clone());
                    }
                }
            }
            if let Some(sum) = &sa.summary {
                rep.count("files_reported_unmodified", sum.files_unmodified);
            }
            rep.class(format!("disk/{}", if edits.is_empty() { "unchanged".to_string() } else { edits[0].split(' ').next().unwrap_or("?").to_string() }));
        }
        (Err(p), _) | (_, Err(p)) => rep.violation(case, format!("panic:{}", panic_sig(&p)), p, detail),
        (a, b) => rep.violation(case, "backup-error", format!("{:?} {:?}", a.map(|x| x.map(|s| s.id)), b.map(|x| x.map(|s| s.id))), detail),
    }
    let _ = std::fs::remove_dir_all(&work);
    let _: BTreeMap<u8, u8> = BTreeMap::new();
}

pub fn run(ctx: &Ctx) -> (Report, Meta) {
    let mut rep = run_cases(ctx, ctx.tier.pick(150, 6000), &synth_case);
    let mut c2 = ctx.clone();
    c2.seed ^= 0x11d;
    rep.merge({ let mut cb = c2.clone(); cb.case_base = 500_000; run_cases(&cb, ctx.tier.pick(40, 1200), &|c, i, r, rep| disk_case(c, i + 500_000, r, rep)) });
    let mut c3 = ctx.clone();
    c3.seed ^= 0x11e;
    rep.merge({ let mut cb = c3.clone(); cb.case_base = 900_000; run_cases(&cb, ctx.tier.pick(16, 400), &|c, i, r, rep| pruned_parent_case(c, i + 900_000, r, rep)) });
    let meta = Meta {
        level: "exploration",
        rule: "case = (parent state(s), current state) related by generated edits that satisfy the property's premise (every content change also changes size or mtime): content change with/without size change, touch, chmod, rename, duplicate, add/remove, type change file<->dir<->symlink; realised synthetically (explicit metadata, ctime recorded or absent, inodes 0 / stable / changed, one or two explicit parents, ignore-ctime, ignore-inode, skip-if-unchanged) and on disk (real mtime/ctime/inode, edits applied in place, parent found by group). Oracle: tree id of the parent-based backup == tree id of a forced backup of the same source on a clone of the same store; the snapshot reads back equal to the source model; skip_if_unchanged writes a snapshot iff the tree differs from the parent's; files_unmodified <= files that kept type, size and mtime. Partly pruned parents: one data pack removed + repair_index, then a parent-based backup must re-read, read back correctly and check clean. distinct_nontrivial = distinct (realisation, edit kind, parent count, ctime mode)".to_string(),
        exhaustive: false,
        assumptions: vec!["edits that change content while keeping size, mtime and ctime are outside the property's premise and not generated".to_string()],
    };
    (rep, meta)
}
