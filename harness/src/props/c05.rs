//! C05 Check is sound and complete with respect to restorability

use std::{collections::BTreeMap, sync::Arc};

use bytes::Bytes;
use rustic_core::{FileType, Id, repofile::MasterKey};
use serde_json::json;

use crate::{
    cmds::{Cmd, Env, Limit, PruneSpec, read_each_snapshot},
    evidence::{Ctx, Meta, Report, catch, panic_sig, run_cases},
    model::{ALL_EDITS, apply_edit},
    observe::{CmpOpts, Observed, diff_obs},
    props::c02::setup,
    rawrepo::{RawIndex, RawKey, encode_file, index_view, parse_index, sha_id},
    repo::{check_full, errstr},
    rng::Rng,
    store::{StoreState, Universe, ft_name},
};

#[derive(Clone, Debug)]
pub enum Fault {
    Remove(FileType, Id),
    Truncate(FileType, Id, usize),
    Flip(FileType, Id, usize, u8, &'static str),
    Extend(FileType, Id, usize),
    ReplaceBy(FileType, Id, Id),
    /// rewrite an index file (old id, new content)
    IndexEdit(Id, RawIndex, &'static str),
}

impl Fault {
    pub fn kind(&self) -> String {
        match self {
            Fault::Remove(t, _) => format!("remove/{}", ft_name(*t)),
            Fault::Truncate(t, _, _) => format!("truncate/{}", ft_name(*t)),
            Fault::Flip(t, _, _, _, w) => format!("flip/{}/{w}", ft_name(*t)),
            Fault::Extend(t, _, _) => format!("extend/{}", ft_name(*t)),
            Fault::ReplaceBy(t, _, _) => format!("replace-by-sibling/{}", ft_name(*t)),
            Fault::IndexEdit(_, _, w) => format!("index-edit/{w}"),
        }
    }
    pub fn desc(&self) -> String {
        match self {
            Fault::Remove(t, id) => format!("remove {} {id}", ft_name(*t)),
            Fault::Truncate(t, id, n) => format!("truncate {} {id} to {n} bytes", ft_name(*t)),
            Fault::Flip(t, id, pos, bit, w) => format!("flip bit {bit} of byte {pos} ({w}) in {} {id}", ft_name(*t)),
            Fault::Extend(t, id, n) => format!("append {n} bytes to {} {id}", ft_name(*t)),
            Fault::ReplaceBy(t, a, b) => format!("replace content of {} {a} by that of {b}", ft_name(*t)),
            Fault::IndexEdit(id, _, w) => format!("index file {id}: {w}"),
        }
    }
    pub fn apply(&self, st: &mut StoreState, rk: &RawKey, r: &mut Rng) {
        match self {
            Fault::Remove(t, id) => {
                let _ = st.del(*t, id);
            }
            Fault::Truncate(t, id, n) => {
                let b = st.get(*t, id).unwrap().clone();
                let _ = st.put(*t, id, b.slice(..(*n).min(b.len())));
            }
            Fault::Flip(t, id, pos, bit, _) => {
                let mut v = st.get(*t, id).unwrap().to_vec();
                if *pos < v.len() {
                    v[*pos] ^= 1 << bit;
                }
                let _ = st.put(*t, id, Bytes::from(v));
            }
            Fault::Extend(t, id, n) => {
                let mut v = st.get(*t, id).unwrap().to_vec();
                let extra = if *n == 0 { v.clone() } else { r.bytes(*n) };
                v.extend(extra);
                let _ = st.put(*t, id, Bytes::from(v));
            }
            Fault::ReplaceBy(t, a, b) => {
                let src = st.get(*t, b).unwrap().clone();
                let _ = st.put(*t, a, src);
            }
            Fault::IndexEdit(id, new, _) => {
                let _ = st.del(FileType::Index, id);
                let mut nonce = [0u8; 16];
                r.fill(&mut nonce);
                let (nid, bytes) = encode_file(rk, nonce, &serde_json::to_vec(new).unwrap());
                let _ = st.put(FileType::Index, &nid, bytes);
            }
        }
    }
}

pub struct Target {
    pub key: MasterKey,
    pub base: StoreState,
    pub baseline: BTreeMap<Id, Observed>,
    pub faults: Vec<Fault>,
    pub desc: String,
}

/// all faults for one repository state
pub fn enumerate_faults(rk: &RawKey, st: &StoreState, r: &mut Rng, full: bool) -> Vec<Fault> {
    let mut v = Vec::new();
    let view = index_view(rk, st).unwrap_or_default();
    for t in [FileType::Snapshot, FileType::Index, FileType::Pack] {
        let ids = st.ids(t);
        for id in &ids {
            let len = st.get(t, id).unwrap().len();
            v.push(Fault::Remove(t, *id));
            for n in [0usize, 1, 15, 16, 31, 32, len / 2, len.saturating_sub(1), len.saturating_sub(4), len.saturating_sub(16)] {
                if n < len {
                    v.push(Fault::Truncate(t, *id, n));
                }
            }
            v.push(Fault::Extend(t, *id, 1));
            v.push(Fault::Extend(t, *id, 0));
            // structural bit flips
            let mut pos: Vec<(usize, &'static str)> = vec![(0, "nonce-first"), (15, "nonce-last"), (16, "body-first"), (len.saturating_sub(17), "body-last"), (len.saturating_sub(16), "mac-first"), (len.saturating_sub(1), "last-byte")];
            if t == FileType::Pack {
                if let Some(p) = view.packs.get(id).or_else(|| view.marked.get(id)) {
                    for b in &p.blobs {
                        let (o, l) = (b.offset as usize, b.length as usize);
                        pos.push((o, "blob-nonce"));
                        pos.push((o + l / 2, "blob-body"));
                        pos.push((o + l - 1, "blob-mac"));
                    }
                    let blobs_end: usize = p.blobs.iter().map(|b| b.length as usize).sum();
                    pos.push((blobs_end, "header-nonce"));
                    pos.push(((blobs_end + len.saturating_sub(4)) / 2, "header-body"));
                    pos.push((len.saturating_sub(5), "header-mac"));
                }
                for i in 1..=4 {
                    pos.push((len.saturating_sub(i), "length-field"));
                }
            }
            for _ in 0..(if full { 8 } else { 2 }) {
                pos.push((r.usize_below(len.max(1)), "random"));
            }
            pos.sort();
            pos.dedup_by_key(|p| p.0);
            if !full && pos.len() > 14 {
                r.shuffle(&mut pos);
                pos.truncate(14);
            }
            for (p, w) in pos {
                if p < len {
                    v.push(Fault::Flip(t, *id, p, r.below(8) as u8, w));
                }
            }
        }
        // siblings
        let mut pairs: Vec<(Id, Id)> = Vec::new();
        for a in &ids {
            for b in &ids {
                if a != b {
                    pairs.push((*a, *b));
                }
            }
        }
        let max_pairs = if full { 60 } else { 12 };
        if pairs.len() > max_pairs {
            r.shuffle(&mut pairs);
            pairs.truncate(max_pairs);
        }
        for (a, b) in pairs {
            v.push(Fault::ReplaceBy(t, a, b));
        }
    }
    // index-semantic faults
    for id in st.ids(FileType::Index) {
        let Ok(ix) = parse_index(rk, st.get(FileType::Index, &id).unwrap()) else { continue };
        let npacks = ix.packs.len();
        if npacks == 0 {
            continue;
        }
        let picks: Vec<usize> = if full { (0..npacks).collect() } else { vec![r.usize_below(npacks), r.usize_below(npacks)] };
        for pi in picks {
            let p = &ix.packs[pi];
            {
                let mut n = ix.clone();
                let _ = n.packs.remove(pi);
                v.push(Fault::IndexEdit(id, n, "drop one pack"));
            }
            if p.blobs.is_empty() {
                continue;
            }
            let bi = r.usize_below(p.blobs.len());
            {
                let mut n = ix.clone();
                let _ = n.packs[pi].blobs.remove(bi);
                v.push(Fault::IndexEdit(id, n, "drop one blob entry"));
            }
            {
                let mut n = ix.clone();
                let b = n.packs[pi].blobs[bi].clone();
                n.packs[pi].blobs.push(b);
                v.push(Fault::IndexEdit(id, n, "duplicate one blob entry"));
            }
            {
                let mut n = ix.clone();
                n.packs[pi].blobs[bi].offset += 1;
                v.push(Fault::IndexEdit(id, n, "offset+1"));
            }
            {
                let mut n = ix.clone();
                n.packs[pi].blobs[bi].length -= 1;
                v.push(Fault::IndexEdit(id, n, "length-1"));
            }
            {
                let mut n = ix.clone();
                let b = &mut n.packs[pi].blobs[bi];
                b.tpe = if b.tpe == "tree" { "data".to_string() } else { "tree".to_string() };
                v.push(Fault::IndexEdit(id, n, "type flipped"));
            }
            {
                let mut n = ix.clone();
                let b = &mut n.packs[pi].blobs[bi];
                let mut idb = crate::rawrepo::id_bytes(&b.id);
                idb[31] ^= 1;
                b.id = Id::new(idb);
                v.push(Fault::IndexEdit(id, n, "blob id changed"));
            }
            if p.blobs.len() >= 2 {
                let mut n = ix.clone();
                n.packs[pi].blobs.swap(0, 1);
                let (o0, o1) = (n.packs[pi].blobs[0].offset, n.packs[pi].blobs[1].offset);
                n.packs[pi].blobs[0].offset = o1;
                n.packs[pi].blobs[1].offset = o0;
                v.push(Fault::IndexEdit(id, n, "two blob ids exchanged within a pack"));
            }
        }
    }
    let _ = sha_id;
    v
}

pub fn build_target(r: &mut Rng, full: bool, variant: u64) -> Result<Target, String> {
    let mut h = setup(r)?;
    // special constructions
    if variant % 3 == 1 {
        // fixed-size chunker without compression: packs of equal layout
        h = loop {
            let x = setup(r)?;
            if !x.cfg.rabin && x.cfg.avg >= 64 {
                break x;
            }
        };
    }
    let n = r.range(2, 4);
    for i in 0..n {
        if i > 0 {
            for _ in 0..r.range(1, 3) {
                let k = r.pick(&ALL_EDITS).clone();
                let _ = apply_edit(r, &mut h.model, &k, &h.tp);
            }
        }
        let _ = h.backup(i % 2 == 0)?;
    }
    // a snapshot as a stream backup (stdin) leaves it: the file node carries size 0 (the size is not known when the node
    // is made) but lists content blobs - check must look at those as at any others
    if r.chance(1, 2) {
        let mut m = crate::model::ModelTree::new();
        let n = h.cfg.max * 2 + 33;
        m.insert(crate::model::pk("stream.bin"), crate::model::Entry { kind: crate::model::Kind::File(std::sync::Arc::new(r.bytes(n))), mode: 0o644, mtime: (1_650_000_777, 0), hardlink: None });
        let root = std::path::PathBuf::from(crate::repo::ROOT);
        let mut src = m.synth_source(&root, crate::model::Frag::Whole);
        for e in &mut src.entries {
            if e.data.is_some() {
                e.node.meta.size = 0;
            }
        }
        h.time += 100;
        let repo = h.env.ids()?;
        let _ = repo.archive(&rustic_core::BackupOptions::default(), &src, crate::repo::snap_at(h.time, "stream"), &[root]).map_err(|e| errstr(&e))?;
    }
    if variant % 2 == 1 {
        // history with forget + prune so that marked packs / repacked packs exist
        let _ = Cmd::Forget { positions: vec![0] }.run(&h.env);
        let mut s = PruneSpec::default_safe();
        s.max_unused = Limit::Pct(0);
        let _ = Cmd::Prune { spec: s }.run(&h.env);
    }
    let base = h.uni.state(0);
    let baseline: BTreeMap<Id, Observed> = read_each_snapshot(&h.env, r)?.into_iter().map(|(id, (_, o))| o.map(|o| (id, o))).collect::<Result<_, _>>()?;
    // sanity (soundness direction): an undamaged repository must check clean
    let errs = h.env.open().and_then(|repo| check_full(&repo).map_err(|e| errstr(&e)))?;
    if !errs.is_empty() {
        return Err(format!("UNDAMAGED-CHECK-ERRORS: {errs:?}"));
    }
    let rk = h.rk();
    let faults = enumerate_faults(&rk, &base, r, full);
    Ok(Target { key: h.key.clone(), base, baseline, faults, desc: h.cfg.desc.clone() })
}

#[derive(Debug, PartialEq, Eq)]
pub enum CheckOutcome {
    Clean,
    Reports(String),
    Err(String),
    Panic(String),
}

pub fn evaluate(t: &Target, f: &Fault, r: &mut Rng) -> (CheckOutcome, Vec<String>, &'static str) {
    let rk = RawKey::from_master(&t.key);
    let mut st = t.base.clone();
    f.apply(&mut st, &rk, r);
    let uni = Universe::from_states(vec![st]);
    uni.lock().recording = false;
    let env = Env::single(uni, t.key.clone());
    // the repositories have no local cache, so trusting it or not must make no difference to what check finds
    let trust = r.chance(1, 3);
    let how = if trust { "check(read_data, trust_cache)" } else { "check(read_data)" };
    let chk = match catch(|| {
        env.open().and_then(|repo| {
            if trust {
                repo.check(rustic_core::CheckOptions::default().read_data(true).trust_cache(true))
                    .map(|res| res.0.iter().filter(|(l, _)| format!("{l:?}") == "Error").map(|(_, e)| format!("{e}")).collect::<Vec<_>>())
                    .map_err(|e| errstr(&e))
            } else {
                check_full(&repo).map_err(|e| errstr(&e))
            }
        })
    }) {
        Err(p) => CheckOutcome::Panic(p),
        Ok(Err(e)) => CheckOutcome::Err(e),
        Ok(Ok(errs)) => {
            if errs.is_empty() { CheckOutcome::Clean } else { CheckOutcome::Reports(errs[0].chars().take(200).collect()) }
        }
    };
    // restorability of every snapshot recorded at the base state
    let mut bad = Vec::new();
    match catch(|| read_each_snapshot(&env, r)) {
        Err(p) => bad.push(format!("reading panicked: {p}")),
        Ok(Err(e)) => bad.push(format!("repository cannot be opened/listed: {e}")),
        Ok(Ok(now)) => {
            for (id, base) in &t.baseline {
                // deleting a snapshot file is a (legitimate) way of forgetting that snapshot: the property speaks
                // about the snapshots that are still in the repository
                if matches!(f, Fault::Remove(FileType::Snapshot, x) if x == id) {
                    continue;
                }
                match now.get(id).map(|x| &x.1) {
                    None => bad.push(format!("snapshot {id} is gone")),
                    Some(Err(e)) => bad.push(format!("snapshot {id} unreadable: {}", e.chars().take(160).collect::<String>())),
                    Some(Ok(o)) => {
                        if let Some(d) = diff_obs(base, o, CmpOpts::ALL).first() {
                            bad.push(format!("snapshot {id} reads DIFFERENT content: {d}"));
                        }
                    }
                }
            }
        }
    }
    (chk, bad, how)
}

/// the documented rotation of id subsets, (1,m) .. (m,m) in separate runs, covers every pack: a damaged pack that the
/// full read reports must be reported by at least one of the m partial runs
pub fn rotation_misses(t: &Target, f: &Fault, r: &mut Rng) -> Option<String> {
    let rk = RawKey::from_master(&t.key);
    let mut st = t.base.clone();
    f.apply(&mut st, &rk, r);
    let m = *r.pick(&[2u32, 3, 5]);
    let mut detected = 0;
    for n in 1..=m {
        let uni = Universe::from_states(vec![st.clone()]);
        uni.lock().recording = false;
        let env = Env::single(uni, t.key.clone());
        let res = catch(|| {
            env.open().and_then(|repo| {
                repo.check(rustic_core::CheckOptions::default().read_data(true).read_data_subset(rustic_core::ReadSubsetOption::IdSubSet((n, m))))
                    .map(|res| res.0.iter().filter(|(l, _)| format!("{l:?}") == "Error").count())
                    .map_err(|e| errstr(&e))
            })
        });
        match res {
            Ok(Ok(0)) => {}
            _ => detected += 1,
        }
    }
    (detected == 0).then(|| format!("none of the {m} runs of check(read_data, subset (n,{m}), n = 1..{m}) reports the damage"))
}

pub fn run(ctx: &Ctx) -> (Report, Meta) {
    let n_targets = ctx.tier.pick(5u64, 60);
    let full = ctx.tier == crate::evidence::Tier::Thorough;
    let mut rep = Report::new();
    let mut targets: Vec<Arc<Target>> = Vec::new();
    for i in 0..n_targets {
        let mut r = Rng::new(ctx.seed).fork(0xc05 + i);
        match build_target(&mut r, full, i) {
            Ok(t) => targets.push(Arc::new(t)),
            Err(e) if e.starts_with("UNDAMAGED-CHECK-ERRORS") => rep.violation(i, "soundness:check-errors-on-undamaged", e, json!({})),
            Err(e) => rep.inconclusive(format!("target {i}: {e}")),
        }
    }
    // flat list of (target, fault)
    let mut jobs: Vec<(usize, usize)> = Vec::new();
    for (ti, t) in targets.iter().enumerate() {
        for fi in 0..t.faults.len() {
            jobs.push((ti, fi));
        }
    }
    rep.count("repositories", targets.len() as u64);
    rep.count("faults_enumerated", jobs.len() as u64);
    let jobs = Arc::new(jobs);
    let targets2 = targets.clone();
    let res = run_cases(ctx, jobs.len() as u64, &|_c, i, r, rep| {
        let (ti, fi) = jobs[i as usize];
        let t = &targets2[ti];
        let f = &t.faults[fi];
        rep.evaluations += 1;
        let (chk, bad, how) = evaluate(t, f, r);
        rep.count(&format!("runs_of_{}", how.replace(['(', ')', ','], "_").replace(' ', "")), 1);
        let kind = f.kind();
        let outcome = match &chk {
            CheckOutcome::Clean => "clean",
            CheckOutcome::Reports(_) => "reports",
            CheckOutcome::Err(_) => "err",
            CheckOutcome::Panic(_) => "panic",
        };
        rep.class(format!("{kind}/{outcome}/{}", if bad.is_empty() { "restorable" } else { "damaged" }));
        rep.count(&format!("outcome_{outcome}_{}", if bad.is_empty() { "restorable" } else { "not_restorable" }), 1);
        if let CheckOutcome::Panic(p) = &chk {
            rep.set_add("check_panics", panic_sig(p));
        }
        if chk == CheckOutcome::Clean && !bad.is_empty() {
            let what = if bad.iter().any(|b| b.contains("DIFFERENT")) { "different-content" } else { "unreadable" };
            rep.violation(
                i,
                format!("check-misses:{kind}:{what}"),
                format!("{}: {how} reports no error, but {}", f.desc(), bad[0]),
                json!({"repository": t.desc, "target": ti, "fault": f.desc()}),
            );
        }
        // pack damage that the full read reports: the subset rotation has to report it in one of its runs
        if chk != CheckOutcome::Clean && matches!(f, Fault::Flip(FileType::Pack, ..) | Fault::Truncate(FileType::Pack, ..) | Fault::Extend(FileType::Pack, ..)) && r.chance(1, 6) {
            rep.count("subset_rotations_run", 1);
            if let Some(why) = rotation_misses(t, f, r) {
                rep.violation(i, format!("subset-rotation-misses:{kind}"), format!("{}: {why}", f.desc()), json!({"repository": t.desc, "target": ti, "fault": f.desc()}));
            }
        }
        if i % 997 == 0 {
            rep.sample(json!({"fault": f.desc(), "check": format!("{chk:?}").chars().take(160).collect::<String>(), "snapshots_not_restorable": bad.len()}));
        }
    });
    rep.merge(res);
    let meta = Meta {
        level: "fault_enumeration",
        rule: "targets = repositories from generated histories (2-4 backups, optionally forget+prune; one in three with the fixed-size chunker and no compression so that packs share a layout; tree packs often one root tree each). For every stored snapshot/index/pack file: remove; truncate to {0,1,15,16,31,32,len/2,len-1,len-4,len-16}; append 1 byte / a copy of itself; flip one bit at every structural position (nonce, first/last body byte, MAC, each blob's nonce/body/MAC, header nonce/body/MAC, each length-field byte) and random ones; replace by siblings of the same type; index files re-encrypted with one pack dropped / one blob entry dropped / duplicated / offset+1 / length-1 / type flipped / id changed / two ids exchanged. For each fault check(read_data) - one time in three with trust_cache, which must not matter without a cache - runs and, on the SAME state, every snapshot is read completely and compared with its content before the fault. Violation iff check is clean and a snapshot is unreadable or reads different content; for a sample of damaged packs the documented subset rotation (1,m)..(m,m), m in {2,3,5}, must report the damage in at least one of its m runs. distinct_nontrivial = distinct (fault kind, check outcome, restorable?)".to_string(),
        exhaustive: full,
        assumptions: vec![
            "exhaustive (thorough tier) = all listed fault kinds on every file of the target repositories; the quick tier samples flip positions and sibling pairs".to_string(),
            "a check that returns Err or panics counts as 'reports an error'".to_string(),
            "the soundness direction (clean check => restorable) on undamaged repositories is evaluated when each target is built and in C02 after every prune".to_string(),
        ],
    };
    (rep, meta)
}
