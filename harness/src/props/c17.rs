//! C17 The in-memory index answers exactly what the index files say

use std::collections::{BTreeMap, BTreeSet};

use rustic_core::{
    BlobId, DataId, FileType, Id, TreeId,
    repofile::{BlobType, IndexPack, MasterKey},
    verif::{Index, IndexCollector, IndexType, ReadIndex},
};
use serde_json::json;

use crate::{
    evidence::{Ctx, Meta, Report, catch, panic_sig, run_cases},
    rawrepo::{RawBlob, RawIndex, RawKey, RawPack, encode_file},
    repo,
    rng::Rng,
    store::Universe,
};

type Loc = (Id, u32, u32, Option<u32>);

#[derive(Default)]
struct ModelIndex {
    /// (type, id) -> listings in unmarked packs
    map: BTreeMap<(String, Id), BTreeSet<Loc>>,
    total: BTreeMap<String, u64>,
    packs: BTreeMap<Id, (String, Vec<RawBlob>)>,
}

fn pack_size(p: &RawPack) -> u64 {
    p.size.map_or_else(
        || 32 + 4 + p.blobs.iter().map(|b| u64::from(b.length) + if b.uncompressed_length.is_some() { 41 } else { 37 }).sum::<u64>(),
        u64::from,
    )
}

fn build_model(files: &[RawIndex]) -> ModelIndex {
    let mut m = ModelIndex::default();
    for f in files {
        for p in &f.packs {
            let tpe = p.blobs.first().map_or("data", |b| b.tpe.as_str()).to_string();
            *m.total.entry(tpe.clone()).or_default() += pack_size(p);
            for b in &p.blobs {
                let _ = m.map.entry((b.tpe.clone(), b.id)).or_default().insert((p.id, b.offset, b.length, b.uncompressed_length));
            }
            let _ = m.packs.insert(p.id, (tpe, p.blobs.clone()));
        }
    }
    m
}

fn gen_id(r: &mut Rng, pool: &mut Vec<Id>) -> Id {
    // ids sharing long prefixes: mutate a pooled id in its last bytes
    if !pool.is_empty() && r.chance(1, 3) {
        let base = *r.pick(pool);
        let mut b = crate::rawrepo::id_bytes(&base);
        let pos = *r.pick(&[31usize, 30, 16, 1, 0]);
        b[pos] ^= 1 << r.below(8);
        let id = Id::new(b);
        pool.push(id);
        return id;
    }
    let mut b = [0u8; 32];
    r.fill(&mut b);
    let id = Id::new(b);
    pool.push(id);
    id
}

fn gen_files(r: &mut Rng, max_packs: usize) -> Vec<RawIndex> {
    let n_files = r.range(1, 4) as usize;
    let mut pool: Vec<Id> = Vec::new();
    let mut blob_pool: Vec<(String, Id)> = Vec::new();
    let mut files = Vec::new();
    let mut pack_ids = BTreeSet::new();
    for _ in 0..n_files {
        let mut f = RawIndex::default();
        let n_packs = r.usize_below(max_packs + 1);
        for _ in 0..n_packs {
            let tpe = if r.chance(1, 3) { "tree" } else { "data" };
            let nb = match r.below(8) {
                0 => 0,
                1 => 1,
                _ => r.usize_below(40),
            };
            let mut blobs = Vec::new();
            let mut off = 0u32;
            for _ in 0..nb {
                // reuse an existing blob id: duplicate across packs, or the same id under the other type
                let id = if !blob_pool.is_empty() && r.chance(1, 6) { r.pick(&blob_pool).1 } else { gen_id(r, &mut pool) };
                let length = 33 + r.below(5000) as u32;
                let ul = if r.chance(1, 2) { Some(1 + r.below(20_000) as u32) } else { None };
                blobs.push(RawBlob { id, tpe: tpe.to_string(), offset: off, length, uncompressed_length: ul });
                blob_pool.push((tpe.to_string(), id));
                off += length;
            }
            let mut pid = gen_id(r, &mut pool);
            while !pack_ids.insert(pid) {
                pid = gen_id(r, &mut pool);
            }
            let size = if r.chance(1, 2) { Some(off + 36 + blobs.iter().map(|b: &RawBlob| if b.uncompressed_length.is_some() { 41 } else { 37 }).sum::<u32>() + r.below(3) as u32) } else { None };
            let p = RawPack { id: pid, blobs, time: None, size };
            if r.chance(1, 7) {
                f.packs_to_delete.push(p);
            } else {
                f.packs.push(p);
            }
        }
        files.push(f);
    }
    files
}

fn to_lib_packs(files: &[RawIndex]) -> Vec<IndexPack> {
    let mut v = Vec::new();
    for f in files {
        for p in &f.packs {
            v.push(serde_json::from_value::<IndexPack>(serde_json::to_value(p).unwrap()).expect("IndexPack from json"));
        }
    }
    v
}

fn probes(r: &mut Rng, m: &ModelIndex) -> Vec<Id> {
    let mut v: Vec<Id> = m.map.keys().map(|k| k.1).collect();
    let present = v.clone();
    for id in present.iter().take(200) {
        let mut b = crate::rawrepo::id_bytes(id);
        b[r.usize_below(32)] ^= 1 << r.below(8);
        v.push(Id::new(b));
    }
    for _ in 0..50 {
        let mut b = [0u8; 32];
        r.fill(&mut b);
        v.push(Id::new(b));
    }
    v.push(Id::default());
    v.push(Id::new([0xff; 32]));
    v
}

fn check_index(case: u64, mode: &str, idx: &Index, m: &ModelIndex, probes: &[Id], rep: &mut Report, detail: &serde_json::Value) {
    for (tname, t) in [("tree", BlobType::Tree), ("data", BlobType::Data)] {
        for id in probes {
            let bid = BlobId::from(*id);
            let expect = m.map.get(&(tname.to_string(), *id));
            let retains_ids = tname == "tree" || mode != "trees-only";
            let retains_full = tname == "tree" || mode == "full";
            let has = idx.has(t, &bid);
            let exp_has = retains_ids && expect.is_some();
            rep.count("lookups", 1);
            if has != exp_has {
                rep.violation(case, format!("has-wrong/{mode}/{tname}"), format!("has({tname}, {id}) = {has}, index files say {exp_has} (mode {mode})"), detail.clone());
                return;
            }
            let got = idx.get_id(t, &bid);
            match (got, expect) {
                (Some(e), Some(set)) if retains_full => {
                    let loc = (*e.pack, e.location.offset, e.location.length, e.location.uncompressed_length.map(std::num::NonZeroU32::get));
                    if !set.contains(&loc) {
                        rep.violation(case, format!("get-wrong-location/{mode}/{tname}"), format!("get_id({tname}, {id}) returned {loc:?}, which no index file lists"), detail.clone());
                        return;
                    }
                }
                (None, Some(_)) if retains_full => {
                    rep.violation(case, format!("get-missing/{mode}/{tname}"), format!("get_id({tname}, {id}) = None although listed"), detail.clone());
                    return;
                }
                (Some(_), None) => {
                    rep.violation(case, format!("get-phantom/{mode}/{tname}"), format!("get_id({tname}, {id}) returned an entry no index file lists"), detail.clone());
                    return;
                }
                (Some(_), Some(_)) if !retains_full => {
                    rep.violation(case, format!("get-in-reduced-mode/{mode}/{tname}"), "reduced mode returned a full entry for data".to_string(), detail.clone());
                    return;
                }
                _ => {}
            }
        }
        let ts = idx.total_size(t);
        let exp = m.total.get(tname).copied().unwrap_or(0);
        if ts != exp {
            rep.violation(case, format!("total-size/{mode}/{tname}"), format!("total_size({tname}) = {ts}, sum of listed pack sizes = {exp}"), detail.clone());
        }
    }
}

fn one_case(_ctx: &Ctx, case: u64, r: &mut Rng, rep: &mut Report, max_packs: usize) {
    let files = gen_files(r, max_packs);
    let m = build_model(&files);
    let pr = probes(r, &m);
    let n_packs: usize = files.iter().map(|f| f.packs.len()).sum();
    let n_marked: usize = files.iter().map(|f| f.packs_to_delete.len()).sum();
    let dup_blobs = m.map.values().filter(|s| s.len() > 1).count();
    let both_types = m.map.keys().filter(|k| k.0 == "tree" && m.map.contains_key(&("data".to_string(), k.1))).count();
    let detail = json!({"index_files": files.len(), "packs": n_packs, "marked_packs": n_marked, "distinct_blobs": m.map.len(), "blobs_in_several_packs": dup_blobs, "ids_under_both_types": both_types});
    for (mode, it) in [("full", IndexType::Full), ("ids-only", IndexType::DataIds), ("trees-only", IndexType::OnlyTrees)] {
        rep.evaluations += 1;
        let packs = to_lib_packs(&files);
        let res = catch(|| {
            let mut c = IndexCollector::new(it);
            c.extend(packs);
            c.into_index()
        });
        let idx = match res {
            Err(p) => {
                rep.violation(case, format!("panic:{}", panic_sig(&p)), format!("building the {mode} index panicked: {p}"), detail.clone());
                continue;
            }
            Ok(i) => i,
        };
        check_index(case, mode, &idx, &m, &pr, rep, &detail);
        // packs back out of the index
        if mode == "full" {
            let mut seen = BTreeSet::new();
            for p in idx {
                let pid: Id = *p.id;
                if !seen.insert(pid) {
                    rep.violation(case, "into-packs/duplicate", format!("pack {pid} returned twice by the pack iteration"), detail.clone());
                    break;
                }
                match m.packs.get(&pid) {
                    None => {
                        rep.violation(case, "into-packs/phantom", format!("pack {pid} returned by the pack iteration is not listed"), detail.clone());
                        break;
                    }
                    Some((_, blobs)) => {
                        let mut a: Vec<_> = p.blobs.iter().map(|b| (*b.id, b.location.offset, b.location.length, b.location.uncompressed_length.map(std::num::NonZeroU32::get))).collect();
                        let mut b: Vec<_> = blobs.iter().map(|b| (b.id, b.offset, b.length, b.uncompressed_length)).collect();
                        a.sort();
                        b.sort();
                        if a != b {
                            rep.violation(case, "into-packs/blobs", format!("pack {pid}: blobs from the pack iteration differ from the listing"), detail.clone());
                            break;
                        }
                    }
                }
            }
            if seen.len() != m.packs.len() && !rep.violations.iter().any(|v| v.case == case) {
                rep.violation(case, "into-packs/missing", format!("pack iteration returned {} packs, {} listed", seen.len(), m.packs.len()), detail.clone());
            }
        }
    }
    // end-to-end: plant the index files in a store and query through the repository
    if case % 4 == 0 {
        rep.evaluations += 1;
        let uni = Universe::new(1);
        let key = MasterKey::new();
        if repo::init(uni.backend(0), &key, &rustic_core::ConfigOptions::default()).is_ok() {
            let rk = RawKey::from_master(&key);
            {
                let mut g = uni.lock();
                for f in &files {
                    let json = serde_json::to_vec(f).unwrap();
                    let mut nonce = [0u8; 16];
                    r.fill(&mut nonce);
                    let (id, bytes) = encode_file(&rk, nonce, &json);
                    let _ = g.stores[0].put(FileType::Index, &id, bytes);
                }
            }
            match repo::open_uni(&uni, &key).and_then(rustic_core::Repository::to_indexed) {
                Err(e) => rep.violation(case, "e2e/to_indexed", format!("loading planted index files failed: {}", repo::errstr(&e)), detail.clone()),
                Ok(repo) => {
                    for id in pr.iter().take(120) {
                        for tname in ["tree", "data"] {
                            let expect = m.map.get(&(tname.to_string(), *id));
                            let got = if tname == "tree" { repo.get_index_entry(&TreeId::from(BlobId::from(*id))) } else { repo.get_index_entry(&DataId::from(BlobId::from(*id))) };
                            rep.count("e2e_lookups", 1);
                            match (got, expect) {
                                (Ok(e), Some(set)) => {
                                    let loc = (*e.pack, e.location.offset, e.location.length, e.location.uncompressed_length.map(std::num::NonZeroU32::get));
                                    if !set.contains(&loc) {
                                        rep.violation(case, "e2e/wrong-location", format!("get_index_entry({tname} {id}) = {loc:?} not listed (marked pack?)"), detail.clone());
                                    }
                                }
                                (Ok(_), None) => rep.violation(case, "e2e/phantom", format!("get_index_entry({tname} {id}) succeeded although only marked/none lists it"), detail.clone()),
                                (Err(_), Some(_)) => rep.violation(case, "e2e/missing", format!("get_index_entry({tname} {id}) failed although listed in an unmarked pack"), detail.clone()),
                                (Err(_), None) => {}
                            }
                        }
                    }
                }
            }
        }
    }
    if n_packs >= 2 && m.map.len() >= 2 {
        rep.class(format!(
            "files{}/packs{}/{}{}{}",
            files.len(),
            match n_packs {
                0..=3 => "few",
                4..=20 => "some",
                _ => "many",
            },
            if dup_blobs > 0 { "dup" } else { "nodup" },
            if both_types > 0 { "+bothtypes" } else { "" },
            if n_marked > 0 { "+marked" } else { "" }
        ));
    }
    if case % 499 == 0 {
        rep.sample(detail);
    }
}

/// a real repository with live, marked and (sometimes) lost packs, opened through all four public constructors of the
/// indexed states; every answer is compared with the raw index files
fn real_repo_case(_ctx: &Ctx, case: u64, r: &mut Rng, rep: &mut Report) {
    use crate::cmds::{Cmd, Limit, PruneSpec};
    let mut h = match crate::props::c02::setup(r) {
        Ok(h) => h,
        Err(e) => {
            rep.inconclusive(format!("setup: {e}"));
            return;
        }
    };
    for _ in 0..r.range(2, 3) {
        for _ in 0..r.range(1, 3) {
            let k = r.pick(&crate::model::ALL_EDITS).clone();
            let _ = crate::model::apply_edit(r, &mut h.model, &k, &h.tp);
        }
        if h.backup(true).is_err() {
            return;
        }
    }
    // forget the oldest and mark (not remove) what it alone used
    let _ = Cmd::Forget { positions: vec![0] }.run(&h.env);
    let mut spec = PruneSpec::default_safe();
    spec.max_unused = Limit::Pct(0);
    spec.repack_all = r.chance(1, 3);
    let _ = Cmd::Prune { spec }.run(&h.env);
    let rk = h.rk();
    // sometimes a pack file is lost as well: the checked constructors then must not offer its blobs
    let lost: Option<Id> = if r.chance(1, 3) {
        let st = h.uni.state(0);
        crate::rawrepo::index_view(&rk, &st).ok().and_then(|v| v.packs.keys().next().copied()).inspect(|id| {
            let mut g = h.uni.lock();
            let _ = g.stores[0].del(FileType::Pack, id);
        })
    } else {
        None
    };
    let st = h.uni.state(0);
    let Ok(view) = crate::rawrepo::index_view(&rk, &st) else { return };
    rep.evaluations += 1;
    let mut probes: BTreeSet<(String, Id)> = view.blobs.keys().cloned().collect();
    for p in view.marked.values() {
        for b in &p.blobs {
            let _ = probes.insert((b.tpe.clone(), b.id));
        }
    }
    rep.count("real_repo_marked_packs", view.marked.len() as u64);
    let detail = json!({"config": h.cfg.desc, "packs": view.packs.len(), "marked": view.marked.len(), "lost_pack": lost.map(|i| i.to_hex().to_string())});
    type Lookup = Box<dyn Fn(&str, &Id) -> Option<Loc>>;
    let ctors: Vec<(&str, bool, Result<Lookup, String>)> = vec![
        ("to_indexed", false, h.env.open().and_then(|r| r.to_indexed().map_err(|e| repo::errstr(&e))).map(|repo| {
            Box::new(move |t: &str, id: &Id| {
                let e = if t == "tree" { repo.get_index_entry(&TreeId::from(BlobId::from(*id))) } else { repo.get_index_entry(&DataId::from(BlobId::from(*id))) };
                e.ok().map(|e| (*e.pack, e.location.offset, e.location.length, e.location.uncompressed_length.map(std::num::NonZeroU32::get)))
            }) as Lookup
        })),
        ("to_indexed_checked", true, h.env.open().and_then(|r| r.to_indexed_checked().map_err(|e| repo::errstr(&e))).map(|repo| {
            Box::new(move |t: &str, id: &Id| {
                let e = if t == "tree" { repo.get_index_entry(&TreeId::from(BlobId::from(*id))) } else { repo.get_index_entry(&DataId::from(BlobId::from(*id))) };
                e.ok().map(|e| (*e.pack, e.location.offset, e.location.length, e.location.uncompressed_length.map(std::num::NonZeroU32::get)))
            }) as Lookup
        })),
    ];
    for (name, checked, c) in ctors {
        let look = match c {
            Ok(l) => l,
            Err(e) => {
                rep.violation(case, format!("real/{name}:failed"), e, detail.clone());
                continue;
            }
        };
        for (t, id) in &probes {
            rep.count("real_repo_lookups", 1);
            // listings in unmarked packs; the checked constructors additionally drop packs that are not in storage
            let expect: Vec<Loc> = view.blobs.get(&(t.clone(), *id)).map(|l| l.iter().filter(|x| !checked || Some(x.0) != lost).cloned().collect()).unwrap_or_default();
            match (look(t, id), expect.is_empty()) {
                (Some(loc), false) => {
                    if !expect.contains(&loc) {
                        rep.violation(case, format!("real/{name}:wrong-location"), format!("{t} {id}: {loc:?} is not one of the listings in live packs"), detail.clone());
                        break;
                    }
                }
                (Some(loc), true) => {
                    rep.violation(case, format!("real/{name}:phantom"), format!("{t} {id} is listed only in packs marked for deletion (or lost), but the index answers {loc:?}"), detail.clone());
                    break;
                }
                (None, false) => {
                    rep.violation(case, format!("real/{name}:missing"), format!("{t} {id} is listed in a live pack but the index does not find it"), detail.clone());
                    break;
                }
                (None, true) => {}
            }
        }
        rep.class(format!("real/{name}/{}{}", if view.marked.is_empty() { "nomarked" } else { "marked" }, if lost.is_some() { "+lost" } else { "" }));
    }
    // the ids-only constructors: presence of data blobs / full entries for trees through a backup that must not
    // deduplicate against marked packs is covered by C02/C10; here: both build without error
    for (name, res) in [("to_indexed_ids", h.env.open().and_then(|r| r.to_indexed_ids().map(|_| ()).map_err(|e| repo::errstr(&e)))), ("to_indexed_ids_checked", h.env.open().and_then(|r| r.to_indexed_ids_checked().map(|_| ()).map_err(|e| repo::errstr(&e))))] {
        if let Err(e) = res {
            rep.violation(case, format!("real/{name}:failed"), e, detail.clone());
        }
    }
}

pub fn run(ctx: &Ctx) -> (Report, Meta) {
    let n = ctx.tier.pick(10_000, 1_500_000);
    let max_packs = ctx.tier.pick(25, 120);
    let mut rep = run_cases(ctx, n, &|c, i, r, rep| one_case(c, i, r, rep, max_packs));
    {
        let mut c2 = ctx.clone();
        c2.case_base = 10_000_000;
        c2.seed ^= 0x17;
        rep.merge(run_cases(&c2, ctx.tier.pick(24, 600), &|c, i, r, rep| real_repo_case(c, i + 10_000_000, r, rep)));
    }
    let meta = Meta {
        level: "exploration",
        rule: "case = 1-4 generated index files (0..max packs each, 0-40 blobs per pack, duplicate blobs across packs, same id under both types, empty packs, marked packs, ids sharing long prefixes, explicit sizes) loaded into the real index in the three modes (hook H3) and, for every 4th case, planted as encrypted files in a store and queried through Repository::get_index_entry; oracle: multimap model over unmarked packs for has/get_id/total_size/pack iteration, probed with all present ids, one-bit neighbours and random ids. Plus real repositories (backups, forget, marking prune, sometimes a lost pack) opened through to_indexed / to_indexed_checked (and the ids-only constructors built): every blob listed in a live or marked pack is looked up and compared with the raw index files (marked => not found; checked constructors: lost pack => not found). non-trivial = >= 2 packs and >= 2 distinct blobs; distinct = (files, pack count class, duplicates, both-types, marked)".to_string(),
        exhaustive: false,
        assumptions: vec![
            "packs are homogeneous (all blobs of one type), as the library writes them; legacy mixed packs are not generated".to_string(),
            "index built through IndexCollector/Index re-exported by hook H3 (same types the repository uses)".to_string(),
        ],
    };
    (rep, meta)
}
