//! C14 Restore yields exactly the snapshot and never writes outside the target

use std::{
    collections::BTreeMap,
    ffi::OsStr,
    os::unix::ffi::OsStrExt,
    path::{Path, PathBuf},
    sync::Arc,
};

use rustic_core::{BackupOptions, LocalDestination, LsOptions, ParentOptions, RestoreOptions, repofile::SnapshotFile};
use serde_json::json;

use crate::{
    evidence::{Ctx, Meta, Report, catch, panic_sig, run_cases},
    model::{Entry, Kind, ModelTree, NameClass, PathKey, SynthEntry, SynthSource, gen_tree, pk, pk_display, pk_to_path, synth_node},
    observe::{Observed, observe_disk, root_node_opt},
    props::c02::setup,
    repo::{ROOT, errstr, snap_at},
    rng::Rng,
};

fn set_meta(p: &Path, mode: u32, mtime: (i64, u32)) {
    use std::os::unix::fs::PermissionsExt;
    if !p.symlink_metadata().map(|m| m.file_type().is_symlink()).unwrap_or(false) {
        let _ = std::fs::set_permissions(p, std::fs::Permissions::from_mode(mode));
    }
    let ft = filetime::FileTime::from_unix_time(mtime.0, mtime.1);
    let _ = filetime::set_symlink_file_times(p, ft, ft);
}

#[derive(Clone, Copy, Debug, PartialEq, Eq, PartialOrd, Ord)]
enum Mutation {
    Identical,
    SameSizeDifferent,
    Truncated,
    Longer,
    ToDir,
    ToSymlinkOutside,
    ToFile,
    Missing,
    OtherLinkTarget,
}

/// build the pre-existing destination; returns the mutation chosen per snapshot path
fn build_dest(r: &mut Rng, model: &ModelTree, dest: &Path, outside: &Path) -> BTreeMap<PathKey, Mutation> {
    std::fs::create_dir_all(dest).unwrap();
    let mut muts = BTreeMap::new();
    let mut blocked: Vec<PathKey> = Vec::new(); // subtrees that do not exist as directories in dest
    for (k, e) in &model.entries {
        if blocked.iter().any(|b| k.len() > b.len() && &k[..b.len()] == b.as_slice()) {
            continue;
        }
        let p = dest.join(pk_to_path(k));
        let m = match &e.kind {
            Kind::File(_) => *r.pick(&[Mutation::Identical, Mutation::Identical, Mutation::SameSizeDifferent, Mutation::Truncated, Mutation::Longer, Mutation::ToDir, Mutation::ToSymlinkOutside, Mutation::Missing, Mutation::Missing]),
            Kind::Dir => *r.pick(&[Mutation::Identical, Mutation::Identical, Mutation::Identical, Mutation::ToFile, Mutation::ToSymlinkOutside, Mutation::Missing]),
            Kind::Symlink(_) => *r.pick(&[Mutation::Identical, Mutation::OtherLinkTarget, Mutation::ToFile, Mutation::ToDir, Mutation::Missing]),
        };
        let _ = muts.insert(k.clone(), m);
        let later = (e.mtime.0 + 1000, 0u32);
        match (&e.kind, m) {
            (Kind::File(b), Mutation::Identical) => {
                std::fs::write(&p, b.as_slice()).unwrap();
                set_meta(&p, e.mode, e.mtime);
            }
            (Kind::File(b), Mutation::SameSizeDifferent) => {
                let mut v = b.as_ref().clone();
                if v.is_empty() {
                    std::fs::write(&p, b"").unwrap();
                    set_meta(&p, 0o600, later);
                } else {
                    let i = r.usize_below(v.len());
                    v[i] ^= 0xff;
                    std::fs::write(&p, &v).unwrap();
                    // the mtime differs by 1000 s, or only in its sub-second part (still "size/mtime differing")
                    let near = (e.mtime.0, if e.mtime.1 >= 500_000_000 { e.mtime.1 - 400_000_000 } else { e.mtime.1 + 400_000_000 });
                    set_meta(&p, 0o600, if r.chance(1, 2) { near } else { later });
                }
            }
            (Kind::File(b), Mutation::Truncated) => {
                let n = r.usize_below(b.len().max(1));
                std::fs::write(&p, &b[..n.min(b.len())]).unwrap();
                set_meta(&p, 0o640, later);
            }
            (Kind::File(b), Mutation::Longer) => {
                let mut v = b.as_ref().clone();
                v.extend(r.rbytes(1, 5000));
                std::fs::write(&p, &v).unwrap();
                set_meta(&p, 0o666, later);
            }
            (Kind::Dir, Mutation::Identical) => {
                std::fs::create_dir_all(&p).unwrap();
            }
            (_, Mutation::ToDir) => {
                std::fs::create_dir_all(p.join("child_of_wrong_type_dir")).unwrap();
                std::fs::write(p.join("child_file"), b"x").unwrap();
                if matches!(e.kind, Kind::Dir) {
                    unreachable!();
                }
            }
            (_, Mutation::ToFile) => {
                std::fs::write(&p, b"i am a file where the snapshot has something else").unwrap();
                set_meta(&p, 0o644, later);
                if matches!(e.kind, Kind::Dir) {
                    blocked.push(k.clone());
                }
            }
            (Kind::Dir, Mutation::ToSymlinkOutside) => {
                std::os::unix::fs::symlink(outside.join("dir_sentinel"), &p).unwrap();
                blocked.push(k.clone());
            }
            (_, Mutation::ToSymlinkOutside) => {
                std::os::unix::fs::symlink(outside.join("sentinel.txt"), &p).unwrap();
            }
            (Kind::Symlink(t), Mutation::Identical) => {
                std::os::unix::fs::symlink(OsStr::from_bytes(t), &p).unwrap();
                set_meta(&p, 0o777, e.mtime);
            }
            (Kind::Symlink(_), Mutation::OtherLinkTarget) => {
                std::os::unix::fs::symlink(outside.join("sentinel.txt"), &p).unwrap();
            }
            (Kind::Dir, Mutation::Missing) => blocked.push(k.clone()),
            (_, Mutation::Missing) => {}
            _ => {}
        }
    }
    // directory metadata of identical dirs
    for (k, e) in model.entries.iter().rev() {
        if matches!(e.kind, Kind::Dir) && muts.get(k) == Some(&Mutation::Identical) {
            set_meta(&dest.join(pk_to_path(k)), e.mode, e.mtime);
        }
    }
    muts
}

fn manifest_outside(root: &Path, dest_name: &str) -> Result<Observed, String> {
    let mut m = observe_disk(root)?;
    m.retain(|k, _| k.first().map(|c| c.as_slice()) != Some(dest_name.as_bytes()));
    Ok(m)
}

fn sparse_opt() -> RestoreOptions {
    let mut o = RestoreOptions::default();
    o.sparse = Some(serde_json::from_value(json!("ByContent")).expect("sparse option"));
    o
}

fn restore(repo: &crate::repo::RepoFull, snap: &SnapshotFile, dest: &Path, opts: &RestoreOptions, dry: bool) -> Result<(), String> {
    let Some(root) = root_node_opt(repo, snap)? else { return Ok(()) };
    let d = LocalDestination::new(dest.to_str().unwrap(), true, false).map_err(|e| errstr(&e))?;
    let ls = repo.ls(&root, &LsOptions::default()).map_err(|e| errstr(&e))?;
    let plan = repo.prepare_restore(opts, ls.clone(), &d, dry).map_err(|e| format!("prepare_restore: {}", errstr(&e)))?;
    if dry {
        return Ok(());
    }
    repo.restore(plan, opts, ls, &d).map_err(|e| format!("restore: {}", errstr(&e)))
}

fn mutate_case(ctx: &Ctx, case: u64, r: &mut Rng, rep: &mut Report) {
    let mut h = match setup(r) {
        Ok(h) => h,
        Err(e) => {
            rep.inconclusive(format!("setup: {e}"));
            return;
        }
    };
    h.tp.name_classes = vec![NameClass::Ascii, NameClass::Utf8, NameClass::Escapes, NameClass::InvalidUtf8];
    h.tp.max_entries = 10;
    // sparse-friendly content: some all-zero files / files with holes
    h.model = gen_tree(r, &h.tp);
    if r.chance(1, 2) {
        let zl = h.cfg.max * 3 + 5;
        h.model.insert(pk("zeros.bin"), Entry { kind: Kind::File(Arc::new(vec![0u8; zl])), mode: 0o644, mtime: (1_650_000_000, 0), hardlink: None });
        let mut v = vec![0u8; h.cfg.max * 2];
        v.extend(r.rbytes(10, 300));
        v.extend(vec![0u8; h.cfg.max * 2]);
        h.model.insert(pk("holes.bin"), Entry { kind: Kind::File(Arc::new(v)), mode: 0o600, mtime: (1_650_000_001, 0), hardlink: None });
    }
    // names that order differently as whole path strings and component-wise: a directory `d` next to `d.txt`, `d-old`,
    // `d (copy)`, `d!` ... (bytes below '/'); the walk over the destination and the snapshot's node stream have to
    // agree on which comes first
    if r.chance(1, 2) {
        let dirs: Vec<PathKey> = h.model.entries.iter().filter(|(k, e)| matches!(e.kind, Kind::Dir) && h.model.entries.keys().any(|k2| k2.len() > k.len() && k2.starts_with(k))).map(|(k, _)| k.clone()).collect();
        if !dirs.is_empty() {
            let d = r.pick(&dirs).clone();
            for suffix in r.subset(&[&b".txt"[..], b"-old", b" (copy)", b"!", b"+x", b",v", b"\x01"], 1, 2) {
                let mut k = d.clone();
                k.last_mut().unwrap().extend_from_slice(suffix);
                if !h.model.entries.contains_key(&k) {
                    let n = r.usize_below(200);
                    h.model.insert(k, Entry { kind: Kind::File(Arc::new(r.bytes(n))), mode: 0o644, mtime: (1_650_000_500, 0), hardlink: None });
                    rep.count("siblings_ordering_before_slash_planted", 1);
                }
            }
        }
    }
    let Ok(id) = h.backup(true) else { return };
    let model = h.snaps[&id].clone();
    let repo = match h.env.full() {
        Ok(r) => r,
        Err(_) => return,
    };
    let snap: SnapshotFile = match repo.get_all_snapshots() {
        Ok(mut v) if !v.is_empty() => v.remove(0),
        _ => return,
    };
    // sandbox
    let root = ctx.case_dir(case);
    let dest = root.join("dest");
    let outside = root.join("outside");
    std::fs::create_dir_all(outside.join("dir_sentinel")).unwrap();
    std::fs::write(outside.join("sentinel.txt"), b"SENTINEL - must never change").unwrap();
    std::fs::write(outside.join("dir_sentinel/inner.txt"), b"inner sentinel").unwrap();
    std::fs::create_dir_all(root.join("dest_sibling")).unwrap();
    std::fs::write(root.join("dest_sibling/file"), b"sibling").unwrap();
    std::fs::write(root.join("dest.txt"), b"name prefix of dest").unwrap();
    let muts = build_dest(r, &model, &dest, &outside);
    // extra entries (not in the snapshot)
    let mut extras: Vec<PathKey> = Vec::new();
    for i in 0..r.range(0, 3) {
        let dirs: Vec<PathKey> = std::iter::once(vec![]).chain(model.entries.iter().filter(|(k, e)| matches!(e.kind, Kind::Dir) && muts.get(*k) == Some(&Mutation::Identical)).map(|(k, _)| k.clone())).collect();
        let mut k = r.pick(&dirs).clone();
        k.push(format!("extra_{i}").into_bytes());
        if model.entries.contains_key(&k) {
            continue;
        }
        let p = dest.join(pk_to_path(&k));
        if p.parent().is_some_and(|d| d.symlink_metadata().is_ok_and(|m| m.is_dir())) {
            match r.below(3) {
                0 => std::fs::write(&p, b"extra file").unwrap(),
                1 => {
                    std::fs::create_dir_all(p.join("sub")).unwrap();
                    std::fs::write(p.join("sub/f"), b"extra nested").unwrap();
                }
                _ => std::os::unix::fs::symlink(outside.join("sentinel.txt"), &p).unwrap(),
            }
            extras.push(k);
        }
    }
    let delete = r.chance(1, 2);
    let verify = r.chance(1, 2);
    let sparse = r.chance(1, 3);
    let mut opts = if sparse { sparse_opt() } else { RestoreOptions::default() };
    opts = opts.delete(delete).verify_existing(verify).no_ownership(r.chance(1, 2));
    let detail = json!({"config": h.cfg.desc, "delete": delete, "verify_existing": verify, "sparse": sparse, "mutations": muts.iter().map(|(k, m)| format!("{}={m:?}", pk_display(k))).collect::<Vec<_>>(), "extras": extras.iter().map(pk_display).collect::<Vec<_>>()});
    let out_before = manifest_outside(&root, "dest").expect("manifest");
    let dest_before = observe_disk(&dest).expect("dest manifest");
    // dry run first: nothing may change at all
    rep.evaluations += 1;
    let dry = catch(|| restore(&repo, &snap, &dest, &opts, true));
    if let Err(p) = &dry {
        rep.violation(case, format!("panic:{}", panic_sig(p)), format!("prepare_restore(dry_run) panicked: {p}"), detail.clone());
    }
    if observe_disk(&dest).ok().as_ref() != Some(&dest_before) {
        rep.violation(case, "dry-run-changed-destination", "prepare_restore with dry_run changed the destination".to_string(), detail.clone());
    }
    rep.evaluations += 1;
    let res = catch(|| restore(&repo, &snap, &dest, &opts, false));
    // outside oracle
    match manifest_outside(&root, "dest") {
        Ok(after) => {
            if after != out_before {
                let diff = crate::observe::diff_obs(&out_before, &after, crate::observe::CmpOpts::ALL);
                rep.violation(case, "outside-modified", format!("restore changed something outside the destination directory: {:?}", diff.first()), detail.clone());
            }
        }
        Err(e) => rep.violation(case, "outside-unreadable", e, detail.clone()),
    }
    match res {
        Err(p) => {
            rep.violation(case, format!("panic:{}", panic_sig(&p)), format!("restore panicked: {p}"), detail.clone());
        }
        Ok(Err(e)) => {
            rep.violation(case, "restore-error", format!("restore into a pre-populated destination failed: {e}"), detail.clone());
        }
        Ok(Ok(())) => {
            // inside oracle
            match observe_disk(&dest) {
                Err(e) => rep.violation(case, "dest-unreadable", e, detail.clone()),
                Ok(obs) => {
                    let mut reported = std::collections::BTreeSet::new();
                    for (k, e) in &model.entries {
                        let m = muts.get(k).copied();
                        let sig_m = m.map_or("under-replaced-dir".to_string(), |m| format!("{m:?}"));
                        let mut bad: Option<String> = None;
                        match obs.get(k) {
                            None => bad = Some("missing after restore".to_string()),
                            Some(o) => {
                                if o.kind != e.kind {
                                    bad = Some(match (&o.kind, &e.kind) {
                                        (Kind::File(a), Kind::File(b)) => format!("content differs (restored {} bytes, snapshot {} bytes)", a.len(), b.len()),
                                        (a, b) => format!("type/target differs (found {}, snapshot {})", kn(a), kn(b)),
                                    });
                                } else {
                                    let is_link = matches!(e.kind, Kind::Symlink(_));
                                    if !is_link && o.mode != Some(e.mode) {
                                        bad = Some(format!("mode {:?} != {:o}", o.mode.map(|x| format!("{x:o}")), e.mode));
                                    } else if o.mtime != Some(e.mtime) {
                                        bad = Some(format!("mtime {:?} != {:?}", o.mtime, e.mtime));
                                    }
                                }
                            }
                        }
                        if let Some(b) = bad {
                            let what = b.split(' ').next().unwrap_or("?").to_string();
                            let sig = format!("inside:{sig_m}:{what}{}", if delete { "" } else { ":no-delete" });
                            if reported.insert(sig.clone()) {
                                rep.violation(case, sig, format!("snapshot path {} (pre-state {sig_m}): {b}", pk_display(k)), detail.clone());
                            }
                        }
                    }
                    // extras
                    for k in &extras {
                        let still = obs.get(k);
                        if delete && still.is_some() {
                            rep.violation(case, "extras:not-deleted", format!("extra entry {} survived although delete was requested", pk_display(k)), detail.clone());
                        }
                        if !delete {
                            match (still, dest_before.get(k)) {
                                (Some(a), Some(b)) if a.kind == b.kind => {}
                                _ => rep.violation(case, "extras:touched", format!("extra entry {} was removed or changed although delete was not requested", pk_display(k)), detail.clone()),
                            }
                        }
                    }
                    // nothing else may remain when delete is on
                    if delete {
                        for k in obs.keys() {
                            if !model.entries.contains_key(k) {
                                rep.violation(case, "extras:leftover", format!("{} is not in the snapshot and survived --delete", pk_display(k)), detail.clone());
                                break;
                            }
                        }
                    }
                    // sparse: content equality is already checked; count that holes were exercised
                    if sparse {
                        rep.count("sparse_restores", 1);
                    }
                }
            }
        }
    }
    for m in muts.values() {
        rep.class(format!("{m:?}/{}{}", if delete { "delete" } else { "keep" }, if verify { "/verify" } else { "" }));
    }
    if case % 23 == 0 {
        rep.sample(detail);
    }
    let _ = std::fs::remove_dir_all(&root);
}

fn kn(k: &Kind) -> &'static str {
    match k {
        Kind::File(_) => "file",
        Kind::Dir => "dir",
        Kind::Symlink(_) => "symlink",
    }
}

/// snapshots whose tree nodes carry hostile names
fn hostile_case(ctx: &Ctx, case: u64, r: &mut Rng, rep: &mut Report) {
    let h = match setup(r) {
        Ok(h) => h,
        Err(e) => {
            rep.inconclusive(format!("setup: {e}"));
            return;
        }
    };
    let root = ctx.case_dir(case);
    let dest = root.join("dest");
    let outside = root.join("outside");
    std::fs::create_dir_all(&dest).unwrap();
    std::fs::create_dir_all(&outside).unwrap();
    std::fs::write(outside.join("sentinel.txt"), b"SENTINEL").unwrap();
    let abs_target = root.join("abs_target");
    let names: Vec<Vec<u8>> = vec![
        b"..".to_vec(),
        b"../escaped_file".to_vec(),
        b"../outside/evil".to_vec(),
        b"a/../../escaped2".to_vec(),
        abs_target.join("abs_file").as_os_str().as_bytes().to_vec(),
        b"sub/dir/file".to_vec(),
        b".".to_vec(),
        b"".to_vec(),
        b"../outside/sentinel.txt".to_vec(),
    ];
    let name = r.pick(&names).clone();
    let nested = r.chance(1, 2);
    let as_dir = r.chance(1, 4);
    // synthetic source: r / [d /] <hostile name>
    let base = PathBuf::from(ROOT);
    let mut entries = Vec::new();
    let e_file = Entry { kind: Kind::File(Arc::new(b"hostile payload".to_vec())), mode: 0o644, mtime: (1_650_000_000, 0), hardlink: None };
    let e_dir = Entry { kind: Kind::Dir, mode: 0o755, mtime: (1_650_000_000, 0), hardlink: None };
    let parent = if nested { base.join("d") } else { base.clone() };
    if nested {
        entries.push(SynthEntry { path: base.join("d"), node: synth_node(b"d", &e_dir), data: None });
    }
    entries.push(SynthEntry { path: base.join("a_normal"), node: synth_node(b"a_normal", &e_file), data: Some(Arc::new(b"normal".to_vec())) });
    // the name as a foreign tool could have STORED it: dots and separators hidden behind restic's \xNN escapes (the
    // library's own escaping never produces those, but it has to unescape them before judging the name)
    let hide = r.chance(1, 2) && !name.is_empty();
    let stored = |n: &mut rustic_core::repofile::Node, r: &mut Rng| {
        if hide {
            n.name = name.iter().map(|b| if *b == b'.' || *b == b'/' || r.chance(1, 4) || !b.is_ascii_graphic() || *b == b'\\' || *b == b'"' { format!("\\x{b:02x}") } else { (*b as char).to_string() }).collect();
        }
    };
    if as_dir {
        let mut node = synth_node(&name, &e_dir);
        stored(&mut node, r);
        entries.push(SynthEntry { path: parent.join("hostile_dir_placeholder"), node, data: None });
    } else {
        let mut node = synth_node(&name, &e_file);
        stored(&mut node, r);
        entries.push(SynthEntry { path: parent.join("hostile_placeholder"), node, data: Some(Arc::new(b"hostile payload".to_vec())) });
    }
    entries.sort_by(|a, b| a.path.cmp(&b.path));
    let src = SynthSource { entries, frag: crate::model::Frag::Whole };
    let detail = json!({"node_name": String::from_utf8_lossy(&name), "nested": nested, "as_dir": as_dir, "stored_with_escapes": hide});
    let snap = match catch(|| h.env.ids().and_then(|repo| repo.archive(&BackupOptions::default().parent_opts(ParentOptions::default().force(true)), &src, snap_at(1_700_000_000, "h"), &[base.clone()]).map_err(|e| errstr(&e)))) {
        Ok(Ok(s)) => s,
        Ok(Err(_)) => {
            rep.count("hostile_snapshots_refused_at_backup", 1);
            let _ = std::fs::remove_dir_all(&root);
            return;
        }
        Err(p) => {
            rep.violation(case, format!("panic:{}", panic_sig(&p)), format!("archiving a node named {:?} panicked: {p}", String::from_utf8_lossy(&name)), detail);
            let _ = std::fs::remove_dir_all(&root);
            return;
        }
    };
    let before = manifest_outside(&root, "dest").expect("manifest");
    rep.evaluations += 1;
    let res = catch(|| -> Result<(), String> {
        let repo = h.env.full()?;
        restore(&repo, &snap, &dest, &RestoreOptions::default().delete(r.chance(1, 2)), false)
    });
    if let Err(p) = &res {
        // a panic is not an escape, but it is not a result or an error either
        rep.violation(case, format!("panic:{}", panic_sig(p)), format!("restore of a node named {:?} panicked: {p}", String::from_utf8_lossy(&name)), detail.clone());
    }
    let after = manifest_outside(&root, "dest").expect("manifest");
    if after != before {
        let created: Vec<String> = after.keys().filter(|k| !before.contains_key(*k)).map(pk_display).collect();
        let changed: Vec<String> = before.iter().filter(|(k, v)| after.get(*k) != Some(*v)).map(|(k, _)| pk_display(k)).collect();
        let class = if name.starts_with(b"/") { "absolute" } else if name.windows(2).any(|w| w == b"..") { "dotdot" } else { "other" };
        rep.violation(
            case,
            format!("escape:{class}"),
            format!("restoring a snapshot whose tree contains a node named {:?} created {created:?} / changed {changed:?} outside the destination", String::from_utf8_lossy(&name)),
            detail.clone(),
        );
    }
    rep.class(format!("hostile/{}{}{}", String::from_utf8_lossy(&name).replace(root.to_str().unwrap_or("?"), "<abs>"), if nested { "/nested" } else { "" }, if hide { "/escaped" } else { "" }));
    let _ = std::fs::remove_dir_all(&root);
}

pub fn run(ctx: &Ctx) -> (Report, Meta) {
    let mut rep = run_cases(ctx, ctx.tier.pick(120, 4000), &mutate_case);
    let mut c2 = ctx.clone();
    c2.seed ^= 0x14b;
    rep.merge({ let mut cb = c2.clone(); cb.case_base = 1_000_000; run_cases(&cb, ctx.tier.pick(60, 800), &|c, i, r, rep| hostile_case(c, i + 1_000_000, r, rep)) });
    let meta = Meta {
        level: "exploration",
        rule: "case = generated snapshot (names incl. escapes and invalid UTF-8, symlinks, all-zero files and files with holes) restored into a sandbox root holding dest/, outside/ with sentinel files, a sibling directory and a file sharing dest's name prefix. The destination is pre-populated by mutating the snapshot content per entry {identical, same size different bytes, truncated, longer, file<->dir<->symlink with symlinks pointing at the sentinels outside, missing} plus extra files/dirs/symlinks; options delete x verify_existing x sparse x no_ownership. A dry run must change nothing; after the real restore every snapshot path must hold the snapshot's type, bytes, link target, mode and mtime, extras are gone iff delete (else untouched), and the manifest (type, bytes, mode, mtime, inode) of everything outside dest must be unchanged. Hostile snapshots are built through a synthetic source with node names '..', '../x', 'a/../../x', absolute paths, names with separators, '.', empty - stored plainly or with dots/separators hidden behind \\xNN escapes: nothing may appear or change outside dest. distinct_nontrivial = distinct (pre-state mutation, delete, verify) / hostile name classes".to_string(),
        exhaustive: false,
        assumptions: vec![
            "pre-existing files that differ from the snapshot always get another mtime (the property's premise when verify_existing is off)".to_string(),
            "the restore runs as root in the sandbox; ownership is not compared".to_string(),
        ],
    };
    (rep, meta)
}
