//! reference models written from the property texts (independent of rustic_core's code)

/// degree of a GF(2) polynomial
fn deg(p: u64) -> i32 {
    63 - p.leading_zeros() as i32
}

/// p mod m over GF(2), bit by bit (no tables)
pub fn pmod(mut p: u64, m: u64) -> u64 {
    let dm = deg(m);
    while deg(p) >= dm {
        p ^= m << (deg(p) - dm);
    }
    p
}

/// Rabin fingerprint of `bytes` under `poly`: the byte string read as a polynomial, reduced mod poly
pub fn fingerprint(bytes: &[u8], poly: u64) -> u64 {
    let mut h = 0u64;
    for b in bytes {
        // h has degree < deg(poly) <= 53, so h << 8 fits
        h = pmod((h << 8) | u64::from(*b), poly);
    }
    h
}

#[derive(Clone, Copy, Debug, PartialEq, Eq)]
pub enum WindowModel {
    /// the property text: fingerprint of the most recent 64 bytes of the current chunk
    /// (all of them while the chunk is shorter than 64 bytes)
    Strict,
    /// what rustic_cdc's `reset_and_prefill_window` does: only 63 of the 64 bytes before the
    /// minimum size are fed, byte `min-1` is never hashed (known finding C06/window63)
    Prefill63,
}

pub const WINDOW: usize = 64;

fn window_fp(chunk: &[u8], l: usize, min: usize, poly: u64, model: WindowModel) -> u64 {
    match model {
        WindowModel::Strict => fingerprint(&chunk[l.saturating_sub(WINDOW)..l], poly),
        WindowModel::Prefill63 => {
            let k = l - min;
            if k >= WINDOW || min < WINDOW {
                // (for min < 64 the deviation model is not defined; use strict)
                fingerprint(&chunk[l.saturating_sub(WINDOW)..l], poly)
            } else {
                let start = min - WINDOW + k.saturating_sub(1);
                let mut w: Vec<u8> = chunk[start..min - 1].to_vec();
                w.extend_from_slice(&chunk[min..l]);
                fingerprint(&w, poly)
            }
        }
    }
}

/// reference content-defined chunker; returns chunk lengths
pub fn rabin_chunks(data: &[u8], poly: u64, avg: usize, min: usize, max: usize, model: WindowModel) -> Vec<usize> {
    let mask = (avg as u64).wrapping_sub(1);
    let mut out = Vec::new();
    let mut pos = 0;
    let n = data.len();
    while pos < n {
        let rem = n - pos;
        if rem < min {
            out.push(rem);
            break;
        }
        let chunk = &data[pos..];
        let mut l = min.max(1);
        // incremental computation would be faster; chunk sizes in the harness are small enough
        loop {
            if l >= max {
                break;
            }
            if window_fp(chunk, l, min, poly, model) & mask == 0 {
                break;
            }
            if l == rem {
                break;
            }
            l += 1;
        }
        let l = l.min(rem);
        out.push(l);
        pos += l;
    }
    out
}

/// incremental (fast) strict reference: rolling update derived from the definition
/// fp(w[1..] ++ b) = ((fp(w) - w[0]*x^(8*63)) * x^8 + b) mod p, computed without tables.
pub struct FastRef {
    poly: u64,
    out: [u64; 256],
}

impl FastRef {
    pub fn new(poly: u64) -> Self {
        let mut out = [0u64; 256];
        for (b, o) in out.iter_mut().enumerate() {
            let mut h = pmod(b as u64, poly);
            for _ in 0..WINDOW - 1 {
                h = pmod(h << 8, poly);
            }
            *o = h;
        }
        Self { poly, out }
    }

    /// chunk lengths under the strict model (min >= 1)
    pub fn chunks(&self, data: &[u8], avg: usize, min: usize, max: usize) -> Vec<usize> {
        let mask = (avg as u64).wrapping_sub(1);
        let mut res = Vec::new();
        let mut pos = 0;
        let n = data.len();
        while pos < n {
            let rem = n - pos;
            if rem < min {
                res.push(rem);
                break;
            }
            let chunk = &data[pos..];
            let mut l = min.max(1);
            let mut h = fingerprint(&chunk[l.saturating_sub(WINDOW)..l], self.poly);
            loop {
                if l >= max || h & mask == 0 || l == rem {
                    break;
                }
                // slide in chunk[l]
                if l >= WINDOW {
                    h ^= self.out[chunk[l - WINDOW] as usize];
                }
                h = pmod((h << 8) | u64::from(chunk[l]), self.poly);
                l += 1;
            }
            res.push(l);
            pos += l;
        }
        res
    }
}

pub fn fixed_chunks(n: usize, size: usize) -> Vec<usize> {
    let mut v = vec![size; n / size.max(1)];
    if size > 0 && n % size != 0 {
        v.push(n % size);
    }
    v
}
