//! helpers to create / open repositories on a `Universe` and to run the common commands

use std::{
    path::{Path, PathBuf},
    sync::Arc,
};

use rustic_core::{
    BackupOptions, CheckOptions, ConfigOptions, Credentials, IndexedFullStatus, IndexedIdsStatus,
    KeyOptions, OpenStatus, Repository, RepositoryBackends, RepositoryOptions, RusticResult,
    WriteBackend,
    repofile::{ConfigFile, MasterKey, SnapshotFile},
};

use crate::{
    model::{Frag, ModelTree},
    store::Universe,
};

pub type RepoOpen = Repository<OpenStatus>;
pub type RepoIds = Repository<IndexedIdsStatus>;
pub type RepoFull = Repository<IndexedFullStatus>;

pub fn repo_opts() -> RepositoryOptions {
    RepositoryOptions::default().no_cache(true)
}

pub fn creds(key: &MasterKey) -> Credentials {
    Credentials::Masterkey(key.clone())
}

pub fn new_repo(be: Arc<dyn WriteBackend>, hot: Option<Arc<dyn WriteBackend>>) -> RusticResult<Repository<()>> {
    Repository::new(&repo_opts(), &RepositoryBackends::new(be, hot))
}

pub fn new_repo_opts(
    be: Arc<dyn WriteBackend>,
    hot: Option<Arc<dyn WriteBackend>>,
    opts: &RepositoryOptions,
) -> RusticResult<Repository<()>> {
    Repository::new(opts, &RepositoryBackends::new(be, hot))
}

pub fn init(be: Arc<dyn WriteBackend>, key: &MasterKey, cfg: &ConfigOptions) -> RusticResult<RepoOpen> {
    new_repo(be, None)?.init(&creds(key), &KeyOptions::default(), cfg)
}

pub fn init_with_config(be: Arc<dyn WriteBackend>, key: &MasterKey, cfg: ConfigFile) -> RusticResult<RepoOpen> {
    new_repo(be, None)?.init_with_config(&creds(key), &KeyOptions::default(), cfg)
}

pub fn open(be: Arc<dyn WriteBackend>, key: &MasterKey) -> RusticResult<RepoOpen> {
    new_repo(be, None)?.open(&creds(key))
}

pub fn open_uni(uni: &Universe, key: &MasterKey) -> RusticResult<RepoOpen> {
    open(uni.backend(0), key)
}

/// the fixed snapshot-side root under which all harness backups are stored
pub const ROOT: &str = "r";

pub fn snap_at(time_s: i64, host: &str) -> SnapshotFile {
    let mut s = SnapshotFile::default();
    s.time = jiff::Timestamp::new(time_s, 0).unwrap().to_zoned(jiff::tz::TimeZone::UTC);
    s.hostname = host.to_string();
    s
}

/// backup a model through the synthetic source. Snapshot paths are `r/...`.
pub fn backup_model(
    repo: &RepoIds,
    model: &ModelTree,
    frag: Frag,
    opts: &BackupOptions,
    snap: SnapshotFile,
) -> RusticResult<SnapshotFile> {
    let root = PathBuf::from(ROOT);
    let src = model.synth_source(&root, frag);
    repo.archive(opts, &src, snap, &[root])
}

/// backup a directory on disk through the real `LocalSource`; snapshot paths are `r/...`
pub fn backup_dir(repo: &RepoIds, dir: &Path, opts: &BackupOptions, snap: SnapshotFile) -> RusticResult<SnapshotFile> {
    let opts = opts.clone().as_path(PathBuf::from(ROOT));
    let paths = rustic_core::PathList::from_iter(Some(dir.to_path_buf()));
    repo.backup(&opts, &paths, snap)
}

/// full check (read data). Returns the error-level findings as strings.
pub fn check_full<S: rustic_core::Open>(repo: &Repository<S>) -> RusticResult<Vec<String>> {
    let res = repo.check(CheckOptions::default().read_data(true))?;
    Ok(res.0.iter().filter(|(l, _)| format!("{l:?}") == "Error").map(|(_, e)| format!("{e}")).collect())
}

/// check without reading pack data
pub fn check_meta<S: rustic_core::Open>(repo: &Repository<S>) -> RusticResult<Vec<String>> {
    let res = repo.check(CheckOptions::default())?;
    Ok(res.0.iter().filter(|(l, _)| format!("{l:?}") == "Error").map(|(_, e)| format!("{e}")).collect())
}

/// compact error text: RusticError's Display carries a backtrace; keep the message part only
pub fn errstr(e: &rustic_core::RusticError) -> String {
    let s = format!("{e}");
    let mut out = String::new();
    let mut in_msg = false;
    for l in s.lines() {
        if l.starts_with("Backtrace") || l.starts_with("Some additional details") {
            break;
        }
        if l.starts_with("Message:") {
            in_msg = true;
            continue;
        }
        let l = l.trim();
        if l.is_empty() {
            continue;
        }
        if !out.is_empty() {
            out.push(' ');
        }
        out.push_str(l);
        let _ = in_msg;
    }
    // append the root cause chain briefly
    if let Some(src) = std::error::Error::source(e) {
        out.push_str(" | cause: ");
        out.push_str(&format!("{src}").lines().filter(|l| !l.trim().is_empty()).take(6).collect::<Vec<_>>().join(" "));
    }
    out.chars().take(600).collect()
}

/// a repository under test: universe + key (+ the generated config it was created with)
pub struct Fixture {
    pub uni: Universe,
    pub key: MasterKey,
}

impl Fixture {
    pub fn create(cfg: &crate::cfggen::GenCfg, r: &mut crate::rng::Rng) -> Result<Self, String> {
        let uni = Universe::new(1);
        let key = MasterKey::new();
        let _ = cfg.create(uni.backend(0), &key, r).map_err(|e| format!("init: {}", errstr(&e)))?;
        Ok(Self { uni, key })
    }
    pub fn open(&self) -> Result<RepoOpen, String> {
        open_uni(&self.uni, &self.key).map_err(|e| format!("open: {}", errstr(&e)))
    }
    pub fn ids(&self) -> Result<RepoIds, String> {
        self.open()?.to_indexed_ids().map_err(|e| format!("to_indexed_ids: {}", errstr(&e)))
    }
    pub fn full(&self) -> Result<RepoFull, String> {
        self.open()?.to_indexed().map_err(|e| format!("to_indexed: {}", errstr(&e)))
    }
    /// backup through a fresh handle with a freshly loaded index
    pub fn backup(&self, model: &ModelTree, opts: &BackupOptions, time_s: i64) -> Result<SnapshotFile, String> {
        let repo = self.ids()?;
        backup_model(&repo, model, Frag::Whole, opts, snap_at(time_s, "h")).map_err(|e| format!("backup: {}", errstr(&e)))
    }
    pub fn raw_key(&self) -> crate::rawrepo::RawKey {
        crate::rawrepo::RawKey::from_master(&self.key)
    }
}
