//! rcv <Cxx> <quick|thorough> [--case N] [--replay file] [--threads N]
use std::{path::PathBuf, time::Instant};

use rcverif::evidence::{Ctx, Tier, finish, install_panic_hook};

fn main() {
    let args: Vec<String> = std::env::args().skip(1).collect();
    if args.is_empty() {
        eprintln!("usage: rcv <Cxx> <quick|thorough> [--case N] [--replay file] [--threads N]");
        std::process::exit(2);
    }
    let prop = args[0].clone();
    #[cfg(feature = "backends")]
    if prop == "C20" && args.get(1).map(String::as_str) == Some("--strace-worker") {
        rcverif::props::c20::strace_worker(args.get(2).expect("dir"));
        return;
    }
    if prop == "C13" && args.get(1).map(String::as_str) == Some("--sanitizer-workload") {
        let rounds = args.get(2).and_then(|s| s.parse::<u64>().ok()).unwrap_or(1);
        rcverif::props::c13::sanitizer_workload(rounds);
        return;
    }
    if prop == "C13" && args.get(1).map(String::as_str) == Some("--worker") {
        install_panic_hook();
        let n = |i: usize| args.get(i).and_then(|s| s.parse::<u64>().ok()).unwrap_or(0);
        rcverif::props::c13::worker(n(2), n(3), n(4), n(5));
        return;
    }
    let mut tier = match args.get(1).map(String::as_str) {
        Some("thorough") => Tier::Thorough,
        _ => Tier::Quick,
    };
    let mut seed: u64 = std::env::var("VERIF_SEED").ok().and_then(|s| s.parse().ok()).unwrap_or(20_260_925);
    let mut only_case = None;
    let mut threads = std::thread::available_parallelism().map_or(8, std::num::NonZero::get);
    let mut budget_s: Option<u64> = std::env::var("VERIF_BUDGET_S").ok().and_then(|s| s.parse().ok());
    let mut i = 1;
    while i < args.len() {
        match args[i].as_str() {
            "--case" => {
                only_case = args.get(i + 1).and_then(|s| s.parse().ok());
                i += 1;
            }
            "--threads" => {
                threads = args.get(i + 1).and_then(|s| s.parse().ok()).unwrap_or(threads);
                i += 1;
            }
            "--budget" => {
                budget_s = args.get(i + 1).and_then(|s| s.parse().ok());
                i += 1;
            }
            "--replay" => {
                let f = args.get(i + 1).expect("--replay needs a file");
                let v: serde_json::Value = serde_json::from_str(&std::fs::read_to_string(f).expect("read replay file")).expect("replay json");
                seed = v["seed"].as_u64().unwrap_or(seed);
                only_case = v["case"].as_u64();
                if v["tier"].as_str() == Some("thorough") {
                    tier = Tier::Thorough;
                } else {
                    tier = Tier::Quick;
                }
                i += 1;
            }
            _ => {}
        }
        i += 1;
    }
    let verif_root = PathBuf::from(std::env::var("VERIF_ROOT").unwrap_or_else(|_| "/verif".to_string()));
    let work = verif_root.join("work");
    std::fs::create_dir_all(&work).expect("create work dir");
    install_panic_hook();
    let ctx = Ctx {
        prop: prop.clone(),
        tier,
        seed,
        work,
        only_case,
        threads,
        verif_root,
        started: Instant::now(),
        case_base: 0,
        budget_s: budget_s.unwrap_or(match tier {
            Tier::Quick => 240,
            Tier::Thorough => 2400,
        }),
    };
    // global watchdog: a check that does not finish is broken/inconclusive, never a verdict
    {
        let limit = ctx.budget_s * 3 + 600;
        let prop = prop.clone();
        let _ = std::thread::spawn(move || {
            std::thread::sleep(std::time::Duration::from_secs(limit));
            eprintln!("WATCHDOG: check {prop} did not finish within {limit}s - inconclusive (no verdict)");
            std::process::exit(2);
        });
    }
    let Some((rep, meta)) = rcverif::props::dispatch(&ctx) else {
        eprintln!("unknown property {prop}");
        std::process::exit(2);
    };
    let code = finish(&ctx, &rep, &meta);
    std::process::exit(code);
}
