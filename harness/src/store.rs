//! `Universe`: one or more exact-map in-memory stores under ONE lock with ONE ordered event log,
//! plus the monitors that sit at the storage boundary: recorder, fault injector, gate, delayer,
//! cold-store semantics and online invariant callbacks.
//!
//! Every command of rustic_core talks to storage only through `ReadBackend`/`WriteBackend`, so the
//! log is the complete ordered history of what reached storage.

use std::{
    collections::{BTreeMap, BTreeSet},
    sync::{Arc, Condvar, Mutex},
    time::Duration,
};

use bytes::Bytes;
use rustic_core::{
    BytesList, ErrorKind, FileType, Id, ReadBackend, RusticError, RusticResult, WriteBackend,
};

pub const ALL_TYPES: [FileType; 5] = [
    FileType::Config,
    FileType::Index,
    FileType::Key,
    FileType::Snapshot,
    FileType::Pack,
];

pub fn ft_idx(t: FileType) -> u8 {
    match t {
        FileType::Config => 0,
        FileType::Index => 1,
        FileType::Key => 2,
        FileType::Snapshot => 3,
        FileType::Pack => 4,
    }
}
pub fn ft_from(i: u8) -> FileType {
    ALL_TYPES[i as usize]
}
pub fn ft_name(t: FileType) -> &'static str {
    match t {
        FileType::Config => "config",
        FileType::Index => "index",
        FileType::Key => "key",
        FileType::Snapshot => "snapshot",
        FileType::Pack => "pack",
    }
}

pub type FKey = (u8, Id);

/// content of one store
#[derive(Clone, Default, Debug, PartialEq, Eq)]
pub struct StoreState {
    pub files: BTreeMap<FKey, Bytes>,
    pub warm: BTreeSet<FKey>,
}

impl StoreState {
    pub fn get(&self, t: FileType, id: &Id) -> Option<&Bytes> {
        self.files.get(&(ft_idx(t), norm_id(t, id)))
    }
    pub fn has(&self, t: FileType, id: &Id) -> bool {
        self.get(t, id).is_some()
    }
    pub fn ids(&self, t: FileType) -> Vec<Id> {
        let i = ft_idx(t);
        self.files.keys().filter(|k| k.0 == i).map(|k| k.1).collect()
    }
    pub fn put(&mut self, t: FileType, id: &Id, b: Bytes) -> Option<Bytes> {
        self.files.insert((ft_idx(t), norm_id(t, id)), b)
    }
    pub fn del(&mut self, t: FileType, id: &Id) -> Option<Bytes> {
        self.files.remove(&(ft_idx(t), norm_id(t, id)))
    }
    pub fn count(&self, t: FileType) -> usize {
        let i = ft_idx(t);
        self.files.keys().filter(|k| k.0 == i).count()
    }
    pub fn total_bytes(&self) -> usize {
        self.files.values().map(Bytes::len).sum()
    }
}

/// real backends have ONE config slot; model that
fn norm_id(t: FileType, id: &Id) -> Id {
    if t == FileType::Config { Id::default() } else { *id }
}

#[derive(Clone, Copy, Debug, PartialEq, Eq, Hash, PartialOrd, Ord)]
pub enum Op {
    Create,
    List,
    ReadFull,
    ReadPartial,
    Write,
    Remove,
    WarmUp,
}

impl Op {
    pub fn mutating(self) -> bool {
        matches!(self, Op::Write | Op::Remove)
    }
    pub fn name(self) -> &'static str {
        match self {
            Op::Create => "create",
            Op::List => "list",
            Op::ReadFull => "read_full",
            Op::ReadPartial => "read_partial",
            Op::Write => "write",
            Op::Remove => "remove",
            Op::WarmUp => "warm_up",
        }
    }
}

#[derive(Clone, Debug)]
pub struct Event {
    /// global sequence number at call time
    pub call_seq: u64,
    /// global sequence number when the effect was applied / the answer computed (under the lock)
    pub apply_seq: u64,
    /// global sequence number at return (0 while open)
    pub ret_seq: u64,
    pub store: usize,
    pub party: u64,
    pub thread: u64,
    pub op: Op,
    pub tpe: FileType,
    pub id: Id,
    pub offset: u32,
    pub len: u64,
    pub ok: bool,
    /// the effect was applied to the store (false for refused / fault-before-effect)
    pub applied: bool,
    /// payload of writes (None otherwise)
    pub payload: Option<Bytes>,
    /// for writes: Some(true) if the key existed with identical bytes, Some(false) if it existed with other bytes
    pub overwrote_same: Option<bool>,
    /// for removes: whether the key existed
    pub existed: bool,
    /// injected fault on this op
    pub faulted: bool,
    /// read rejected by the cold store (not warmed up)
    pub cold_rejected: bool,
    pub cacheable: bool,
}

#[derive(Clone, Copy, Debug, PartialEq, Eq)]
pub enum FaultMode {
    /// return an error, do not apply the operation
    NoEffect,
    /// apply the operation, then return an error
    EffectThenError,
}

#[derive(Clone, Copy, Debug)]
pub struct FaultPlan {
    /// fail the k-th (0-based) mutating operation (counted over all stores)
    pub k: u64,
    pub mode: FaultMode,
}

pub type Monitor = Box<dyn FnMut(&Event, &[StoreState]) -> Option<String> + Send>;

#[derive(Default)]
pub struct UniState {
    pub stores: Vec<StoreState>,
    pub cold: Vec<bool>,
    pub log: Vec<Event>,
    pub seq: u64,
    pub recording: bool,
    pub mut_ops: u64,
    pub all_ops: u64,
    pub fault: Option<FaultPlan>,
    pub fault_fired: bool,
    /// park the calling thread when all_ops reaches this value (before executing the op)
    pub gate_at: Option<u64>,
    /// only ops from this gate "party" (thread tag) count / are parked
    pub gate_party: Option<u64>,
    pub parked: bool,
    pub released: bool,
    pub party_ops: u64,
    pub delay: Option<(u64, u64)>, // (seed, max_micros)
    pub monitors: Vec<Monitor>,
    pub monitor_violations: Vec<String>,
    /// refuse all mutating ops (used to simulate a dead backend after a crash point)
    pub frozen: bool,
}

pub struct UniInner {
    pub m: Mutex<UniState>,
    pub cv: Condvar,
}

#[derive(Clone)]
pub struct Universe(pub Arc<UniInner>);

fn thread_id() -> u64 {
    // stable-ish numeric id
    let s = format!("{:?}", std::thread::current().id());
    s.chars().filter(char::is_ascii_digit).collect::<String>().parse().unwrap_or(0)
}

impl Universe {
    pub fn new(n_stores: usize) -> Self {
        let st = UniState {
            stores: vec![StoreState::default(); n_stores],
            cold: vec![false; n_stores],
            recording: true,
            ..Default::default()
        };
        Self(Arc::new(UniInner { m: Mutex::new(st), cv: Condvar::new() }))
    }

    pub fn from_states(states: Vec<StoreState>) -> Self {
        let n = states.len();
        let st = UniState { stores: states, cold: vec![false; n], recording: true, ..Default::default() };
        Self(Arc::new(UniInner { m: Mutex::new(st), cv: Condvar::new() }))
    }

    pub fn handle(&self, idx: usize) -> StoreHandle {
        StoreHandle { uni: self.clone(), idx, name: format!("mem{idx}"), party: 0 }
    }

    /// a handle whose operations are attributed to `party` (used by the gate: every repository
    /// handle of one command gets its own party, whatever threads the library uses)
    pub fn handle_party(&self, idx: usize, party: u64) -> StoreHandle {
        StoreHandle { uni: self.clone(), idx, name: format!("mem{idx}"), party }
    }

    pub fn backend_party(&self, idx: usize, party: u64) -> Arc<dyn WriteBackend> {
        Arc::new(self.handle_party(idx, party))
    }

    pub fn backend(&self, idx: usize) -> Arc<dyn WriteBackend> {
        Arc::new(self.handle(idx))
    }

    pub fn lock(&self) -> std::sync::MutexGuard<'_, UniState> {
        self.0.m.lock().unwrap_or_else(std::sync::PoisonError::into_inner)
    }

    pub fn snapshot(&self) -> Vec<StoreState> {
        self.lock().stores.clone()
    }
    pub fn state(&self, idx: usize) -> StoreState {
        self.lock().stores[idx].clone()
    }
    pub fn restore(&self, states: Vec<StoreState>) {
        self.lock().stores = states;
    }
    pub fn set_cold(&self, idx: usize, cold: bool) {
        self.lock().cold[idx] = cold;
    }
    pub fn take_log(&self) -> Vec<Event> {
        std::mem::take(&mut self.lock().log)
    }
    pub fn log_len(&self) -> usize {
        self.lock().log.len()
    }
    pub fn clear_log(&self) {
        let mut g = self.lock();
        g.log.clear();
        g.mut_ops = 0;
        g.all_ops = 0;
        g.party_ops = 0;
        g.fault_fired = false;
    }
    pub fn set_fault(&self, f: Option<FaultPlan>) {
        let mut g = self.lock();
        g.fault = f;
        g.fault_fired = false;
        g.mut_ops = 0;
    }
    pub fn fault_fired(&self) -> bool {
        self.lock().fault_fired
    }
    pub fn set_delay(&self, d: Option<(u64, u64)>) {
        self.lock().delay = d;
    }
    pub fn add_monitor(&self, m: Monitor) {
        self.lock().monitors.push(m);
    }
    pub fn clear_monitors(&self) {
        self.lock().monitors.clear();
    }
    pub fn monitor_violations(&self) -> Vec<String> {
        self.lock().monitor_violations.clone()
    }
    pub fn set_frozen(&self, f: bool) {
        self.lock().frozen = f;
    }

    /// arm the gate: the `k`-th (0-based) backend operation issued by threads of `party` parks.
    pub fn arm_gate(&self, party: u64, k: u64) {
        let mut g = self.lock();
        g.gate_at = Some(k);
        g.gate_party = Some(party);
        g.parked = false;
        g.released = false;
        g.party_ops = 0;
    }
    pub fn disarm_gate(&self) {
        let mut g = self.lock();
        g.gate_at = None;
        g.gate_party = None;
        g.released = true;
        drop(g);
        self.0.cv.notify_all();
    }
    /// wait until the gated party is parked or `done()` says its command finished. true = parked.
    pub fn wait_parked(&self, done: &dyn Fn() -> bool, max: Duration) -> bool {
        let start = std::time::Instant::now();
        let mut g = self.lock();
        loop {
            if g.parked {
                return true;
            }
            if done() || start.elapsed() > max {
                return false;
            }
            let (ng, _) = self
                .0
                .cv
                .wait_timeout(g, Duration::from_millis(2))
                .unwrap_or_else(std::sync::PoisonError::into_inner);
            g = ng;
        }
    }
    pub fn release_gate(&self) {
        let mut g = self.lock();
        g.released = true;
        g.gate_at = None;
        drop(g);
        self.0.cv.notify_all();
    }
    pub fn party_ops(&self) -> u64 {
        self.lock().party_ops
    }
    pub fn all_ops(&self) -> u64 {
        self.lock().all_ops
    }
    /// wait until the storage has seen no operation for `quiet` (at most `max`): commands hand work to detached
    /// threads which may still be writing when the call has returned
    pub fn settle(&self, quiet: Duration, max: Duration) {
        let start = std::time::Instant::now();
        loop {
            let n = self.all_ops();
            std::thread::sleep(quiet);
            if self.all_ops() == n || start.elapsed() > max {
                return;
            }
        }
    }
}

#[derive(Clone)]
pub struct StoreHandle {
    pub uni: Universe,
    pub idx: usize,
    pub name: String,
    pub party: u64,
}

impl std::fmt::Debug for StoreHandle {
    fn fmt(&self, f: &mut std::fmt::Formatter<'_>) -> std::fmt::Result {
        write!(f, "StoreHandle({})", self.name)
    }
}

fn err(msg: &'static str, tpe: FileType, id: &Id) -> Box<RusticError> {
    RusticError::new(ErrorKind::Backend, msg)
        .attach_context("tpe", ft_name(tpe))
        .attach_context("id", id.to_hex().to_string())
}

struct Pre {
    ev_idx: Option<usize>,
    /// serial of the event: the log may have been taken or cleared between the call and its completion
    call_seq: u64,
    faulted: Option<FaultMode>,
}

impl StoreHandle {
    /// bookkeeping before an op: delay, gate, sequence numbers, fault decision
    fn pre(&self, op: Op, tpe: FileType, id: &Id, offset: u32, len: u64, cacheable: bool) -> Pre {
        // delay outside the lock
        let delay = {
            let g = self.uni.lock();
            g.delay.map(|(seed, max)| {
                let mut r = crate::rng::Rng::new(seed ^ g.seq.wrapping_mul(0x9E37));
                // heavy-tailed: mostly short, sometimes long
                let x = r.below(100);
                if x < 70 {
                    r.below(max / 10 + 1)
                } else if x < 95 {
                    r.below(max / 2 + 1)
                } else {
                    r.below(max + 1)
                }
            })
        };
        if let Some(us) = delay {
            if us > 0 {
                std::thread::sleep(Duration::from_micros(us));
            } else {
                std::thread::yield_now();
            }
        }

        let my_party = self.party;
        let mut g = self.uni.lock();
        // gate
        if let (Some(k), Some(p)) = (g.gate_at, g.gate_party) {
            if p == my_party {
                if g.party_ops == k {
                    g.parked = true;
                    self.uni.0.cv.notify_all();
                    while !g.released {
                        g = self.uni.0.cv.wait(g).unwrap_or_else(std::sync::PoisonError::into_inner);
                    }
                    g.parked = false;
                }
            }
        }
        if g.gate_party == Some(my_party) || g.gate_party.is_none() {
            g.party_ops += 1;
        }
        g.all_ops += 1;
        g.seq += 1;
        let call_seq = g.seq;
        let mut faulted = None;
        if op.mutating() {
            if let Some(f) = g.fault {
                if g.mut_ops == f.k && !g.fault_fired {
                    faulted = Some(f.mode);
                    g.fault_fired = true;
                }
            }
            g.mut_ops += 1;
        }
        let ev_idx = if g.recording {
            g.log.push(Event {
                call_seq,
                apply_seq: 0,
                ret_seq: 0,
                store: self.idx,
                party: self.party,
                thread: thread_id(),
                op,
                tpe,
                id: *id,
                offset,
                len,
                ok: false,
                applied: false,
                payload: None,
                overwrote_same: None,
                existed: false,
                faulted: faulted.is_some(),
                cold_rejected: false,
                cacheable,
            });
            Some(g.log.len() - 1)
        } else {
            None
        };
        Pre { ev_idx, faulted, call_seq }
    }

    /// run monitors on the event at `ev_idx` (under the lock)
    fn monitors(g: &mut UniState, ev_idx: Option<usize>, call_seq: u64) {
        if g.monitors.is_empty() {
            return;
        }
        let Some(i) = ev_idx else { return };
        let Some(ev) = g.log.get(i).filter(|e| e.call_seq == call_seq).cloned() else { return };
        let mut mons = std::mem::take(&mut g.monitors);
        for m in &mut mons {
            if let Some(v) = m(&ev, &g.stores) {
                g.monitor_violations.push(v);
            }
        }
        g.monitors = mons;
    }
}

impl ReadBackend for StoreHandle {
    fn location(&self) -> String {
        format!("verif:{}", self.name)
    }

    fn list_with_size(&self, tpe: FileType) -> RusticResult<Vec<(Id, u32)>> {
        let pre = self.pre(Op::List, tpe, &Id::default(), 0, 0, false);
        let mut g = self.uni.lock();
        g.seq += 1;
        let seq = g.seq;
        let i = ft_idx(tpe);
        let res: Vec<(Id, u32)> = g.stores[self.idx]
            .files
            .iter()
            .filter(|(k, _)| k.0 == i)
            .map(|(k, v)| (k.1, u32::try_from(v.len()).unwrap_or(u32::MAX)))
            .collect();
        if let Some(ev) = pre.ev_idx.and_then(|e| g.log.get_mut(e)).filter(|ev| ev.call_seq == pre.call_seq) {
            ev.apply_seq = seq;
            ev.ret_seq = seq;
            ev.ok = true;
            ev.len = res.len() as u64;
        }
        Self::monitors(&mut g, pre.ev_idx, pre.call_seq);
        Ok(res)
    }

    fn read_full(&self, tpe: FileType, id: &Id) -> RusticResult<Bytes> {
        let pre = self.pre(Op::ReadFull, tpe, id, 0, 0, false);
        let mut g = self.uni.lock();
        g.seq += 1;
        let seq = g.seq;
        let key = (ft_idx(tpe), norm_id(tpe, id));
        let cold_rej = g.cold[self.idx] && !g.stores[self.idx].warm.contains(&key);
        let res = if cold_rej { None } else { g.stores[self.idx].files.get(&key).cloned() };
        if let Some(ev) = pre.ev_idx.and_then(|e| g.log.get_mut(e)).filter(|ev| ev.call_seq == pre.call_seq) {
            ev.apply_seq = seq;
            ev.ret_seq = seq;
            ev.ok = res.is_some();
            ev.cold_rejected = cold_rej;
            ev.len = res.as_ref().map_or(0, |b| b.len() as u64);
        }
        Self::monitors(&mut g, pre.ev_idx, pre.call_seq);
        drop(g);
        if cold_rej {
            return Err(err("file is in cold storage and was not warmed up", tpe, id));
        }
        res.ok_or_else(|| err("file does not exist", tpe, id))
    }

    fn read_partial(
        &self,
        tpe: FileType,
        id: &Id,
        cacheable: bool,
        offset: u32,
        length: u32,
    ) -> RusticResult<Bytes> {
        let pre = self.pre(Op::ReadPartial, tpe, id, offset, u64::from(length), cacheable);
        let mut g = self.uni.lock();
        g.seq += 1;
        let seq = g.seq;
        let key = (ft_idx(tpe), norm_id(tpe, id));
        let cold_rej = g.cold[self.idx] && !g.stores[self.idx].warm.contains(&key);
        let res: Result<Bytes, &'static str> = if cold_rej {
            Err("file is in cold storage and was not warmed up")
        } else {
            match g.stores[self.idx].files.get(&key) {
                None => Err("file does not exist"),
                Some(b) => {
                    let (o, l) = (offset as usize, length as usize);
                    if o.checked_add(l).is_some_and(|e| e <= b.len()) {
                        Ok(b.slice(o..o + l))
                    } else {
                        Err("read_partial out of range")
                    }
                }
            }
        };
        if let Some(ev) = pre.ev_idx.and_then(|e| g.log.get_mut(e)).filter(|ev| ev.call_seq == pre.call_seq) {
            ev.apply_seq = seq;
            ev.ret_seq = seq;
            ev.ok = res.is_ok();
            ev.cold_rejected = cold_rej;
        }
        Self::monitors(&mut g, pre.ev_idx, pre.call_seq);
        drop(g);
        res.map_err(|m| err(m, tpe, id))
    }

    fn warmup_path(&self, tpe: FileType, id: &Id) -> String {
        format!("{}/{}", ft_name(tpe), id.to_hex().as_str())
    }

    fn needs_warm_up(&self) -> bool {
        self.uni.lock().cold[self.idx]
    }

    fn warm_up(&self, tpe: FileType, id: &Id) -> RusticResult<()> {
        let pre = self.pre(Op::WarmUp, tpe, id, 0, 0, false);
        let mut g = self.uni.lock();
        g.seq += 1;
        let seq = g.seq;
        let key = (ft_idx(tpe), norm_id(tpe, id));
        let _ = g.stores[self.idx].warm.insert(key);
        if let Some(ev) = pre.ev_idx.and_then(|e| g.log.get_mut(e)).filter(|ev| ev.call_seq == pre.call_seq) {
            ev.apply_seq = seq;
            ev.ret_seq = seq;
            ev.ok = true;
            ev.applied = true;
        }
        Self::monitors(&mut g, pre.ev_idx, pre.call_seq);
        Ok(())
    }
}

impl WriteBackend for StoreHandle {
    fn create(&self) -> RusticResult<()> {
        let pre = self.pre(Op::Create, FileType::Config, &Id::default(), 0, 0, false);
        let mut g = self.uni.lock();
        g.seq += 1;
        let seq = g.seq;
        if let Some(ev) = pre.ev_idx.and_then(|e| g.log.get_mut(e)).filter(|ev| ev.call_seq == pre.call_seq) {
            ev.apply_seq = seq;
            ev.ret_seq = seq;
            ev.ok = true;
        }
        Ok(())
    }

    fn write_bytes(&self, tpe: FileType, id: &Id, cacheable: bool, content: BytesList) -> RusticResult<()> {
        // flatten payload
        let parts = content.into_vec();
        let data: Bytes = if parts.len() == 1 {
            parts.into_iter().next().unwrap()
        } else {
            let mut v = Vec::with_capacity(parts.iter().map(Bytes::len).sum());
            for p in &parts {
                v.extend_from_slice(p);
            }
            v.into()
        };
        let pre = self.pre(Op::Write, tpe, id, 0, data.len() as u64, cacheable);
        let mut g = self.uni.lock();
        g.seq += 1;
        let seq = g.seq;
        let frozen = g.frozen;
        let apply = !frozen && pre.faulted != Some(FaultMode::NoEffect);
        let mut overwrote = None;
        if apply {
            let old = g.stores[self.idx].put(tpe, id, data.clone());
            overwrote = old.map(|o| o == data);
        }
        let ok = apply && pre.faulted.is_none();
        if let Some(ev) = pre.ev_idx.and_then(|e| g.log.get_mut(e)).filter(|ev| ev.call_seq == pre.call_seq) {
            ev.apply_seq = seq;
            ev.ret_seq = seq;
            ev.ok = ok;
            ev.applied = apply;
            ev.payload = Some(data);
            ev.overwrote_same = overwrote;
        }
        Self::monitors(&mut g, pre.ev_idx, pre.call_seq);
        drop(g);
        if ok { Ok(()) } else { Err(err("injected write fault", tpe, id)) }
    }

    fn remove(&self, tpe: FileType, id: &Id, cacheable: bool) -> RusticResult<()> {
        let pre = self.pre(Op::Remove, tpe, id, 0, 0, cacheable);
        let mut g = self.uni.lock();
        g.seq += 1;
        let seq = g.seq;
        let frozen = g.frozen;
        let apply = !frozen && pre.faulted != Some(FaultMode::NoEffect);
        let mut existed = false;
        if apply {
            existed = g.stores[self.idx].del(tpe, id).is_some();
            let key = (ft_idx(tpe), norm_id(tpe, id));
            let _ = g.stores[self.idx].warm.remove(&key);
        }
        let ok = apply && pre.faulted.is_none() && existed;
        if let Some(ev) = pre.ev_idx.and_then(|e| g.log.get_mut(e)).filter(|ev| ev.call_seq == pre.call_seq) {
            ev.apply_seq = seq;
            ev.ret_seq = seq;
            ev.ok = ok;
            ev.applied = apply && existed;
            ev.existed = existed;
        }
        Self::monitors(&mut g, pre.ev_idx, pre.call_seq);
        drop(g);
        if ok {
            Ok(())
        } else if apply && pre.faulted.is_none() {
            Err(err("remove: file does not exist", tpe, id))
        } else {
            Err(err("injected remove fault", tpe, id))
        }
    }
}

/// replay the mutating events of `log[..k]` (those that were applied) onto `base`
pub fn apply_prefix(base: &[StoreState], log: &[Event], k: usize) -> Vec<StoreState> {
    let mut st = base.to_vec();
    for ev in log.iter().filter(|e| e.op.mutating() && e.applied).take(k) {
        apply_event(&mut st, ev);
    }
    st
}

pub fn apply_event(st: &mut [StoreState], ev: &Event) {
    match ev.op {
        Op::Write => {
            let _ = st[ev.store].put(ev.tpe, &ev.id, ev.payload.clone().unwrap_or_default());
        }
        Op::Remove => {
            let _ = st[ev.store].del(ev.tpe, &ev.id);
        }
        _ => {}
    }
}

pub fn mutating_events(log: &[Event]) -> Vec<&Event> {
    log.iter().filter(|e| e.op.mutating() && e.applied).collect()
}

/// short description of an event for evidence samples
pub fn ev_desc(e: &Event) -> String {
    format!(
        "s{}:{}:{}:{}{}",
        e.store,
        e.op.name(),
        ft_name(e.tpe),
        &e.id.to_hex()[..8],
        if e.ok { "" } else { ":ERR" }
    )
}
