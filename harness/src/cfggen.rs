//! generated repository configurations (small chunk / pack sizes so that tiny inputs exercise
//! multi-chunk files and many packs)

use bytesize::ByteSize;
use rustic_core::{ConfigOptions, repofile::Chunker};

use crate::rng::Rng;

#[derive(Clone, Debug)]
pub struct GenCfg {
    pub opts: ConfigOptions,
    pub desc: String,
    /// coarse class for distinct counting
    pub class: String,
    pub rabin: bool,
    pub avg: usize,
    pub min: usize,
    pub max: usize,
    pub version: u32,
    pub datapack: Option<u32>,
    pub treepack: Option<u32>,
    /// zstd level >= 19: every blob costs 0.1-0.5 s (huge zstd contexts) - keep workloads tiny
    pub heavy_compression: bool,
}

impl GenCfg {
    /// create a repository with this configuration on `be`
    pub fn create(
        &self,
        be: std::sync::Arc<dyn rustic_core::WriteBackend>,
        key: &rustic_core::repofile::MasterKey,
        r: &mut Rng,
    ) -> rustic_core::RusticResult<crate::repo::RepoOpen> {
        if self.version == 2 {
            crate::repo::init(be, key, &self.opts)
        } else {
            let id = hex::encode(r.bytes(32));
            let poly = *r.pick(&crate::props::c06::POLYS);
            let mut cfg: rustic_core::repofile::ConfigFile =
                serde_json::from_value(serde_json::json!({"version": self.version, "id": id, "chunker_polynomial": format!("{poly:x}")})).expect("config json");
            self.opts.apply(&mut cfg)?;
            crate::repo::init_with_config(be, key, cfg)
        }
    }

    /// file sizes aimed at the chunk / pack boundaries of this configuration
    pub fn sizes(&self, r: &mut Rng, cap: usize) -> Vec<usize> {
        let mut v = vec![0usize, 1, 2, 63, 64, 65];
        let (min, avg, max) = (self.min, self.avg, self.max);
        for b in [min, avg, max] {
            v.extend([b.saturating_sub(1), b, b + 1]);
        }
        v.push(2 * max + r.usize_below(max + 1));
        v.push(3 * max + 1);
        v.push(5 * avg + 3);
        if let Some(p) = self.datapack {
            let p = p as usize;
            v.extend([p.saturating_sub(1), p, p + 1, 3 * p + 7]);
        }
        v.push(4095);
        v.push(4096);
        v.push(4097);
        for _ in 0..4 {
            v.push(r.usize_below(cap + 1));
        }
        v.retain(|x| *x <= cap);
        v
    }
}

/// rabin parameters the library accepts, kept small
pub fn gen_rabin(r: &mut Rng) -> (usize, usize, usize) {
    let k = *r.pick(&[4u32, 5, 6, 7, 8, 9, 10, 11, 12]);
    let avg = 1usize << k;
    let min = match r.below(8) {
        0 => 1,
        1 => avg,
        2 => avg / 2,
        3 => 64.min(avg),
        4 => 63.min(avg),
        5 => 0,
        _ => r.usize_below(avg + 1),
    };
    let max = match r.below(5) {
        0 => avg,
        1 => avg + 1,
        2 => 2 * avg,
        _ => 4 * avg + r.usize_below(avg),
    };
    (avg, min, max)
}

pub fn gen_config(r: &mut Rng) -> GenCfg {
    let mut o = ConfigOptions::default();
    // note: `init` always starts from a version 2 config and refuses downgrades, so version 1
    // repositories are created through `init_with_config` (see `GenCfg::create`)
    let version = if r.chance(1, 5) { 1 } else { 2 };
    let comp: Option<i32> = if version == 1 {
        if r.chance(1, 2) { Some(0) } else { None }
    } else {
        // levels >= 19 allocate large zstd contexts per blob (0.1-0.5 s each): keep them rare
        match r.below(100) {
            0 => Some(22),
            1..=5 => Some(19),
            _ => *r.pick(&[None, Some(-7), Some(0), Some(1), Some(3), Some(9)]),
        }
    };
    if let Some(c) = comp {
        o = o.set_compression(c);
    }
    let rabin = r.chance(3, 4);
    let (avg, min, max);
    if rabin {
        (avg, min, max) = gen_rabin(r);
        o = o.set_chunker(Chunker::Rabin).set_chunk_size(ByteSize(avg as u64)).set_chunk_min_size(ByteSize(min as u64)).set_chunk_max_size(ByteSize(max as u64));
    } else {
        let s = *r.pick(&[1usize, 7, 64, 100, 4096, 1 << 20]);
        (avg, min, max) = (s, s, s);
        o = o.set_chunker(Chunker::FixedSize).set_chunk_size(ByteSize(s as u64));
    }
    let datapack = *r.pick(&[None, Some(1u32), Some(300), Some(4096), Some(70_000)]);
    let treepack = *r.pick(&[None, Some(1u32), Some(300), Some(4096)]);
    if let Some(p) = datapack {
        o = o.set_datapack_size(ByteSize(u64::from(p)));
        if r.chance(1, 2) {
            o = o.set_datapack_growfactor(0u32);
        }
    }
    if let Some(p) = treepack {
        o = o.set_treepack_size(ByteSize(u64::from(p)));
        if r.chance(1, 2) {
            o = o.set_treepack_growfactor(0u32);
        }
    }
    let ev = *r.pick(&[None, Some(true), Some(false)]);
    if let Some(e) = ev {
        o = o.set_extra_verify(e);
    }
    let desc = format!(
        "v{version} comp={comp:?} {} avg={avg} min={min} max={max} datapack={datapack:?} treepack={treepack:?} extra_verify={ev:?}",
        if rabin { "rabin" } else { "fixed" }
    );
    let class = format!(
        "v{version}/{}/{}/{}",
        match comp {
            None => "cdef",
            Some(0) => "c0",
            Some(x) if x < 0 => "cneg",
            Some(x) if x >= 19 => "chigh",
            _ => "cmid",
        },
        if rabin {
            if min < 64 { "rabin-min<64" } else { "rabin" }
        } else {
            "fixed"
        },
        match datapack {
            None => "pdef",
            Some(1) => "p1",
            _ => "psmall",
        }
    );
    GenCfg { opts: o, desc, class, rabin, avg, min, max, version, datapack, treepack, heavy_compression: comp.is_some_and(|c| c >= 19) }
}
