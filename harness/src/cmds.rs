//! uniform catalogue of repository-changing commands, used by the storage-boundary monitors
//! (crash/fault enumeration, append-only, dry-run, hot/cold, scheduling)

use std::{collections::BTreeMap, sync::Arc};

use bytesize::ByteSize;
use rustic_core::{
    BackupOptions, ConfigOptions, Excludes, Id, LimitOption, ParentOptions, PruneOptions,
    RepairIndexOptions, RepairSnapshotsOptions, RepositoryOptions, RewriteOptions,
    RewriteTreesOptions, WriteBackend,
    jiff::Span,
    last_modified_node,
    repofile::{MasterKey, SnapshotFile, SnapshotId},
};

use crate::{
    evidence::catch,
    model::{Frag, ModelTree},
    observe::{Observed, observe_ls_dump},
    repo::{RepoFull, RepoIds, RepoOpen, backup_model, creds, errstr, new_repo_opts, snap_at},
    rng::Rng,
    store::Universe,
};

/// where a repository lives: store 0 = main/cold, store 1 = hot (if `hot`)
#[derive(Clone)]
pub struct Env {
    pub uni: Universe,
    pub key: MasterKey,
    pub hot: bool,
    pub party: u64,
    pub ropts: RepositoryOptions,
    /// store indexes (cold/main, hot)
    pub idx: (usize, usize),
}

impl Env {
    pub fn single(uni: Universe, key: MasterKey) -> Self {
        Self { uni, key, hot: false, party: 0, ropts: crate::repo::repo_opts(), idx: (0, 1) }
    }
    pub fn hotcold(uni: Universe, key: MasterKey) -> Self {
        Self { uni, key, hot: true, party: 0, ropts: crate::repo::repo_opts(), idx: (0, 1) }
    }
    pub fn with_party(&self, party: u64) -> Self {
        let mut e = self.clone();
        e.party = party;
        e
    }
    pub fn backends(&self) -> (Arc<dyn WriteBackend>, Option<Arc<dyn WriteBackend>>) {
        (self.uni.backend_party(self.idx.0, self.party), self.hot.then(|| self.uni.backend_party(self.idx.1, self.party)))
    }
    pub fn open(&self) -> Result<RepoOpen, String> {
        let (be, hot) = self.backends();
        new_repo_opts(be, hot, &self.ropts).and_then(|r| r.open(&creds(&self.key))).map_err(|e| format!("open: {}", errstr(&e)))
    }
    pub fn ids(&self) -> Result<RepoIds, String> {
        self.open()?.to_indexed_ids().map_err(|e| format!("to_indexed_ids: {}", errstr(&e)))
    }
    pub fn full(&self) -> Result<RepoFull, String> {
        self.open()?.to_indexed().map_err(|e| format!("to_indexed: {}", errstr(&e)))
    }
    pub fn init(&self, cfg: &crate::cfggen::GenCfg, r: &mut Rng) -> Result<(), String> {
        let (be, hot) = self.backends();
        if cfg.version == 2 {
            new_repo_opts(be, hot, &self.ropts)
                .and_then(|r| r.init(&creds(&self.key), &rustic_core::KeyOptions::default(), &cfg.opts))
                .map(|_| ())
                .map_err(|e| format!("init: {}", errstr(&e)))
        } else {
            let id = hex::encode(r.bytes(32));
            let poly = *r.pick(&crate::props::c06::POLYS);
            let mut c: rustic_core::repofile::ConfigFile =
                serde_json::from_value(serde_json::json!({"version": cfg.version, "id": id, "chunker_polynomial": format!("{poly:x}")})).expect("config json");
            if self.hot {
                c.is_hot = Some(true);
            }
            cfg.opts.apply(&mut c).map_err(|e| format!("config: {}", errstr(&e)))?;
            new_repo_opts(be, hot, &self.ropts)
                .and_then(|r| r.init_with_config(&creds(&self.key), &rustic_core::KeyOptions::default(), c))
                .map(|_| ())
                .map_err(|e| format!("init_with_config: {}", errstr(&e)))
        }
    }
    /// snapshots sorted by time then id
    pub fn snapshots(&self) -> Result<Vec<SnapshotFile>, String> {
        let mut s = self.open()?.get_all_snapshots().map_err(|e| format!("get_all_snapshots: {}", errstr(&e)))?;
        // order that does not depend on ids (ids differ between twin repositories)
        let label = |x: &SnapshotFile| format!("{}:{}", x.hostname, x.tags.iter().cloned().collect::<Vec<_>>().join(","));
        s.sort_by(|a, b| a.time.cmp(&b.time).then(label(a).cmp(&label(b))).then(a.tree.cmp(&b.tree)).then(a.id.cmp(&b.id)));
        Ok(s)
    }
}

#[derive(Clone, Debug)]
pub struct PruneSpec {
    pub max_unused: Limit,
    pub max_repack: Limit,
    pub keep_pack_h: i64,
    pub keep_delete_h: i64,
    pub instant_delete: bool,
    pub early_delete_index: bool,
    pub fast_repack: bool,
    pub repack_all: bool,
    pub repack_uncompressed: bool,
    pub no_resize: bool,
    pub repack_cacheable_only: Option<bool>,
}

#[derive(Clone, Copy, Debug)]
pub enum Limit {
    Pct(u64),
    Size(u64),
    Unlimited,
}

impl Limit {
    fn to_lib(self) -> LimitOption {
        match self {
            Limit::Pct(p) => LimitOption::Percentage(p),
            Limit::Size(s) => LimitOption::Size(ByteSize(s)),
            Limit::Unlimited => LimitOption::Unlimited,
        }
    }
}

impl PruneSpec {
    pub fn default_safe() -> Self {
        Self {
            max_unused: Limit::Pct(5),
            max_repack: Limit::Unlimited,
            keep_pack_h: 0,
            keep_delete_h: 1,
            instant_delete: false,
            early_delete_index: false,
            fast_repack: false,
            repack_all: false,
            repack_uncompressed: false,
            no_resize: false,
            repack_cacheable_only: None,
        }
    }
    pub fn to_lib(&self) -> PruneOptions {
        PruneOptions::default()
            .max_unused(self.max_unused.to_lib())
            .max_repack(self.max_repack.to_lib())
            .keep_pack(Span::new().hours(self.keep_pack_h))
            .keep_delete(Span::new().hours(self.keep_delete_h))
            .instant_delete(self.instant_delete)
            .early_delete_index(self.early_delete_index)
            .fast_repack(self.fast_repack)
            .repack_all(self.repack_all)
            .repack_uncompressed(self.repack_uncompressed)
            .no_resize(self.no_resize)
            .repack_cacheable_only(self.repack_cacheable_only)
    }
    /// random options from the supported space (percent limits kept below 100, see C18 for the rest)
    pub fn generate(r: &mut Rng, v2: bool) -> Self {
        let lim = |r: &mut Rng| match r.below(7) {
            0 => Limit::Pct(0),
            1 => Limit::Pct(5),
            2 => Limit::Pct(50),
            3 => Limit::Size(0),
            4 => Limit::Size(r.below(20_000)),
            5 => Limit::Pct(r.below(100)),
            _ => Limit::Unlimited,
        };
        let instant = r.chance(1, 4);
        Self {
            max_unused: lim(r),
            max_repack: if r.chance(1, 2) { Limit::Unlimited } else { lim(r) },
            keep_pack_h: if r.chance(1, 5) { 1 } else { 0 },
            keep_delete_h: if r.chance(1, 2) { 0 } else { 1 },
            instant_delete: instant,
            // alone it is documented to do nothing; together with instant-delete it is the documented-unsafe
            // combination, which only matters for interruptions (C03 builds its own specs)
            early_delete_index: r.chance(1, 5),
            fast_repack: r.chance(1, 3),
            repack_all: r.chance(1, 4),
            repack_uncompressed: v2 && r.chance(1, 5),
            no_resize: r.chance(1, 4),
            repack_cacheable_only: *r.pick(&[None, None, Some(true), Some(false)]),
        }
    }
}

#[derive(Clone)]
pub enum Cmd {
    Backup { model: ModelTree, force: bool, time: i64, dry_run: bool },
    /// forget the snapshots at these positions (sorted by time)
    Forget { positions: Vec<usize> },
    Prune { spec: PruneSpec },
    /// copy all snapshots of `src` into this repository
    CopyFrom { src: Env },
    Merge { positions: Vec<usize>, delete: bool },
    Rewrite { exclude: Vec<String>, forget: bool, dry_run: bool },
    RepairIndex { read_all: bool, dry_run: bool },
    RepairSnapshots { delete: bool, dry_run: bool },
    ApplyConfig { opts: ConfigOptions },
    AddKey { pass: String },
    DeleteKeys,
}

impl Cmd {
    pub fn name(&self) -> String {
        match self {
            Cmd::Backup { force, dry_run, .. } => format!("backup{}{}", if *force { "-force" } else { "" }, if *dry_run { "-dry" } else { "" }),
            Cmd::Forget { positions } => format!("forget{positions:?}"),
            Cmd::Prune { spec } => format!(
                "prune(unused={:?},repack={:?},keep_pack={}h,keep_delete={}h{}{}{}{}{}{})",
                spec.max_unused,
                spec.max_repack,
                spec.keep_pack_h,
                spec.keep_delete_h,
                if spec.instant_delete { ",instant" } else { "" },
                if spec.fast_repack { ",fast" } else { "" },
                if spec.repack_all { ",all" } else { "" },
                if spec.repack_uncompressed { ",uncompressed" } else { "" },
                if spec.no_resize { ",noresize" } else { "" },
                match spec.repack_cacheable_only {
                    None => "",
                    Some(true) => ",cacheable-only",
                    Some(false) => ",not-cacheable-only",
                }
            ),
            Cmd::CopyFrom { .. } => "copy".to_string(),
            Cmd::Merge { positions, delete } => format!("merge{positions:?}{}", if *delete { "+delete" } else { "" }),
            Cmd::Rewrite { exclude, forget, dry_run } => format!("rewrite{exclude:?}{}{}", if *forget { "+forget" } else { "" }, if *dry_run { "-dry" } else { "" }),
            Cmd::RepairIndex { read_all, dry_run } => format!("repair-index{}{}", if *read_all { "-readall" } else { "" }, if *dry_run { "-dry" } else { "" }),
            Cmd::RepairSnapshots { delete, dry_run } => format!("repair-snapshots{}{}", if *delete { "+delete" } else { "" }, if *dry_run { "-dry" } else { "" }),
            Cmd::ApplyConfig { .. } => "config".to_string(),
            Cmd::AddKey { .. } => "add-key".to_string(),
            Cmd::DeleteKeys => "delete-keys".to_string(),
        }
    }

    pub fn kind(&self) -> &'static str {
        match self {
            Cmd::Backup { .. } => "backup",
            Cmd::Forget { .. } => "forget",
            Cmd::Prune { .. } => "prune",
            Cmd::CopyFrom { .. } => "copy",
            Cmd::Merge { .. } => "merge",
            Cmd::Rewrite { .. } => "rewrite",
            Cmd::RepairIndex { .. } => "repair-index",
            Cmd::RepairSnapshots { .. } => "repair-snapshots",
            Cmd::ApplyConfig { .. } => "config",
            Cmd::AddKey { .. } => "add-key",
            Cmd::DeleteKeys => "delete-keys",
        }
    }

    /// would this command remove or replace stored snapshot/index/pack files on a normal repository?
    pub fn destructive(&self) -> bool {
        match self {
            Cmd::Backup { .. } | Cmd::CopyFrom { .. } | Cmd::AddKey { .. } => false,
            Cmd::Merge { delete, .. } => *delete,
            Cmd::Forget { positions } => !positions.is_empty(),
            Cmd::Prune { .. } => true,
            Cmd::Rewrite { forget, dry_run, .. } => *forget && !*dry_run,
            Cmd::RepairIndex { dry_run, .. } => !*dry_run,
            Cmd::RepairSnapshots { delete, dry_run } => *delete && !*dry_run,
            Cmd::ApplyConfig { .. } => true,
            Cmd::DeleteKeys => true,
        }
    }

    /// run the command through fresh handles. Ok(Ok) success, Ok(Err) error result, Err = panic
    pub fn run(&self, env: &Env) -> Result<Result<(), String>, String> {
        catch(|| self.run_inner(env))
    }

    /// run without catching panics
    pub fn run_plain(&self, env: &Env) -> Result<(), String> {
        self.run_inner(env)
    }

    fn run_inner(&self, env: &Env) -> Result<(), String> {
        match self {
            Cmd::Backup { model, force, time, dry_run } => {
                let repo = env.ids()?;
                let mut opts = BackupOptions::default().dry_run(*dry_run);
                if *force {
                    opts = opts.parent_opts(ParentOptions::default().force(true));
                }
                backup_model(&repo, model, Frag::Whole, &opts, snap_at(*time, "h")).map(|_| ()).map_err(|e| format!("backup: {}", errstr(&e)))
            }
            Cmd::Forget { positions } => {
                let snaps = env.snapshots()?;
                let ids: Vec<SnapshotId> = positions.iter().filter_map(|p| snaps.get(*p).map(|s| s.id)).collect();
                let repo = env.open()?;
                repo.delete_snapshots(&ids).map_err(|e| format!("delete_snapshots: {}", errstr(&e)))
            }
            Cmd::Prune { spec } => {
                let repo = env.open()?;
                let opts = spec.to_lib();
                let plan = repo.prune_plan(&opts).map_err(|e| format!("prune_plan: {}", errstr(&e)))?;
                repo.prune(&opts, plan).map_err(|e| format!("prune: {}", errstr(&e)))
            }
            Cmd::CopyFrom { src } => {
                let src_repo = src.full()?;
                let snaps = src_repo.get_all_snapshots().map_err(|e| format!("src snapshots: {}", errstr(&e)))?;
                let dst = env.ids()?;
                let rel = dst.relevant_copy_snapshots(|_| true, &snaps).map_err(|e| format!("relevant_copy_snapshots: {}", errstr(&e)))?;
                let todo: Vec<SnapshotFile> = rel.into_iter().filter(|c| c.relevant).map(|c| c.sn).collect();
                src_repo.copy(&dst, todo.iter()).map_err(|e| format!("copy: {}", errstr(&e)))
            }
            Cmd::Merge { positions, delete } => {
                let snaps = env.snapshots()?;
                let sel: Vec<SnapshotFile> = positions.iter().filter_map(|p| snaps.get(*p).cloned()).collect();
                if sel.is_empty() {
                    return Ok(());
                }
                let repo = env.ids()?;
                let snap = snap_at(1_800_000_000, "merge");
                let _ = repo.merge_snapshots(&sel, &last_modified_node, snap).map_err(|e| format!("merge: {}", errstr(&e)))?;
                if *delete {
                    let ids: Vec<_> = sel.iter().map(|s| s.id).collect();
                    repo.delete_snapshots(&ids).map_err(|e| format!("delete_snapshots: {}", errstr(&e)))?;
                }
                Ok(())
            }
            Cmd::Rewrite { exclude, forget, dry_run } => {
                let repo = env.full()?;
                let snaps = repo.get_all_snapshots().map_err(|e| format!("snapshots: {}", errstr(&e)))?;
                let ro = RewriteOptions::default().forget(*forget).dry_run(*dry_run);
                let to = RewriteTreesOptions::default().excludes(Excludes::default().globs(exclude.clone()));
                repo.rewrite_snapshots_and_trees(snaps, &ro, &to).map(|_| ()).map_err(|e| format!("rewrite: {}", errstr(&e)))
            }
            Cmd::RepairIndex { read_all, dry_run } => {
                let repo = env.open()?;
                repo.repair_index(&RepairIndexOptions::default().read_all(*read_all), *dry_run).map_err(|e| format!("repair_index: {}", errstr(&e)))
            }
            Cmd::RepairSnapshots { delete, dry_run } => {
                let repo = env.full()?;
                let snaps = repo.get_all_snapshots().map_err(|e| format!("snapshots: {}", errstr(&e)))?;
                repo.repair_snapshots(&RepairSnapshotsOptions::default().delete(*delete), snaps, *dry_run).map_err(|e| format!("repair_snapshots: {}", errstr(&e)))
            }
            Cmd::ApplyConfig { opts } => {
                let mut repo = env.open()?;
                repo.apply_config(opts).map(|_| ()).map_err(|e| format!("apply_config: {}", errstr(&e)))
            }
            Cmd::AddKey { pass } => {
                let repo = env.open()?;
                repo.add_key(pass, &rustic_core::KeyOptions::default()).map(|_| ()).map_err(|e| format!("add_key: {}", errstr(&e)))
            }
            Cmd::DeleteKeys => {
                let repo = env.open()?;
                let ids: Vec<rustic_core::repofile::KeyId> = repo.list().map_err(|e| format!("list keys: {}", errstr(&e)))?.collect();
                for id in ids {
                    repo.delete_key(&id).map_err(|e| format!("delete_key: {}", errstr(&e)))?;
                }
                Ok(())
            }
        }
    }
}

/// read every snapshot of the repository completely. Err(description) if any listed snapshot
/// cannot be loaded or read.
pub fn read_all_snapshots(env: &Env, r: &mut Rng) -> Result<BTreeMap<Id, (SnapshotFile, Observed)>, String> {
    let repo = env.full()?;
    let snaps = repo.get_all_snapshots().map_err(|e| format!("get_all_snapshots: {}", errstr(&e)))?;
    let mut out = BTreeMap::new();
    for s in snaps {
        let obs = observe_ls_dump(&repo, &s, r, 0).map_err(|e| format!("snapshot {}: {e}", s.id))?;
        let _ = out.insert(*s.id, (s, obs));
    }
    Ok(out)
}

/// read every snapshot individually: id -> (snapshot, full read or the error text)
pub fn read_each_snapshot(env: &Env, r: &mut Rng) -> Result<BTreeMap<Id, (SnapshotFile, Result<Observed, String>)>, String> {
    let repo = env.full()?;
    let snaps = repo.get_all_snapshots().map_err(|e| format!("get_all_snapshots: {}", errstr(&e)))?;
    let mut out = BTreeMap::new();
    for s in snaps {
        let obs = observe_ls_dump(&repo, &s, r, 0);
        let _ = out.insert(*s.id, (s, obs));
    }
    Ok(out)
}
