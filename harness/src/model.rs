//! `ModelTree`: the generator-side description of a source tree, independent of rustic.
//! Two realisations: on disk (real `LocalSource`) and synthetic (`SynthSource: ReadSource`).

use std::{
    collections::BTreeMap,
    ffi::OsStr,
    io::Read,
    os::unix::ffi::OsStrExt,
    path::{Path, PathBuf},
    sync::Arc,
};

use rustic_core::{
    ReadSource, ReadSourceEntry, ReadSourceOpen, RusticResult,
    repofile::{Metadata, Node, NodeType},
};

use crate::rng::Rng;

pub type PathKey = Vec<Vec<u8>>;

pub fn pk(s: &str) -> PathKey {
    s.split('/').filter(|c| !c.is_empty()).map(|c| c.as_bytes().to_vec()).collect()
}

pub fn pk_display(p: &PathKey) -> String {
    p.iter().map(|c| String::from_utf8_lossy(c).escape_default().to_string()).collect::<Vec<_>>().join("/")
}

pub fn pk_to_path(p: &PathKey) -> PathBuf {
    let mut pb = PathBuf::new();
    for c in p {
        pb.push(OsStr::from_bytes(c));
    }
    pb
}

pub fn path_to_pk(p: &Path) -> PathKey {
    p.components()
        .filter_map(|c| match c {
            std::path::Component::Normal(s) => Some(s.as_bytes().to_vec()),
            _ => None,
        })
        .collect()
}

#[derive(Clone, Debug, PartialEq, Eq)]
pub enum Kind {
    File(Arc<Vec<u8>>),
    Dir,
    Symlink(Vec<u8>),
}

#[derive(Clone, Debug, PartialEq, Eq)]
pub struct Entry {
    pub kind: Kind,
    /// permission bits incl. setuid/setgid/sticky (`mode & 0o7777`)
    pub mode: u32,
    /// (seconds, nanoseconds) since the epoch
    pub mtime: (i64, u32),
    /// files with the same group id are hardlinks of each other (on-disk realisation only)
    pub hardlink: Option<u32>,
}

#[derive(Clone, Debug, Default, PartialEq, Eq)]
pub struct ModelTree {
    pub entries: BTreeMap<PathKey, Entry>,
}

pub const S_IFMT: u32 = 0o170_000;

/// own implementation of Go's `fs.FileMode` encoding used in tree nodes
pub fn go_mode(kind: &Kind, perm: u32) -> u32 {
    let mut m = perm & 0o777;
    match kind {
        Kind::Dir => m |= 1 << 31,
        Kind::Symlink(_) => m |= 1 << 27,
        Kind::File(_) => {}
    }
    if perm & 0o4000 != 0 {
        m |= 1 << 23;
    }
    if perm & 0o2000 != 0 {
        m |= 1 << 22;
    }
    if perm & 0o1000 != 0 {
        m |= 1 << 20;
    }
    m
}

/// inverse: permission bits (0o7777) from a Go mode
pub fn perm_from_go(m: u32) -> u32 {
    let mut p = m & 0o777;
    if m & (1 << 23) != 0 {
        p |= 0o4000;
    }
    if m & (1 << 22) != 0 {
        p |= 0o2000;
    }
    if m & (1 << 20) != 0 {
        p |= 0o1000;
    }
    p
}

impl ModelTree {
    pub fn new() -> Self {
        Self::default()
    }

    pub fn insert(&mut self, path: PathKey, e: Entry) {
        // make sure parents exist
        for i in 1..path.len() {
            let parent = path[..i].to_vec();
            let _ = self.entries.entry(parent).or_insert_with(|| Entry {
                kind: Kind::Dir,
                mode: 0o755,
                mtime: (1_600_000_000, 0),
                hardlink: None,
            });
        }
        let _ = self.entries.insert(path, e);
    }

    pub fn remove_subtree(&mut self, path: &PathKey) {
        self.entries.retain(|k, _| !(k.len() >= path.len() && &k[..path.len()] == path.as_slice()));
    }

    pub fn files(&self) -> impl Iterator<Item = (&PathKey, &Arc<Vec<u8>>)> {
        self.entries.iter().filter_map(|(k, e)| match &e.kind {
            Kind::File(b) => Some((k, b)),
            _ => None,
        })
    }

    pub fn total_bytes(&self) -> u64 {
        self.files().map(|(_, b)| b.len() as u64).sum()
    }

    pub fn max_depth(&self) -> usize {
        self.entries.keys().map(Vec::len).max().unwrap_or(0)
    }

    /// children of a directory in component order
    pub fn children<'a>(&'a self, dir: &'a PathKey) -> impl Iterator<Item = (&'a PathKey, &'a Entry)> + 'a {
        self.entries
            .iter()
            .filter(move |(k, _)| k.len() == dir.len() + 1 && &k[..dir.len()] == dir.as_slice())
    }

    /// write the tree below `root` (must exist and be empty). Returns after setting all metadata.
    pub fn write_to_disk(&self, root: &Path) -> std::io::Result<()> {
        use std::os::unix::fs::PermissionsExt;
        let mut hard: BTreeMap<u32, PathBuf> = BTreeMap::new();
        for (k, e) in &self.entries {
            let p = root.join(pk_to_path(k));
            match &e.kind {
                Kind::Dir => std::fs::create_dir_all(&p)?,
                Kind::File(b) => {
                    if let Some(g) = e.hardlink {
                        if let Some(first) = hard.get(&g) {
                            std::fs::hard_link(first, &p)?;
                            continue;
                        }
                        let _ = hard.insert(g, p.clone());
                    }
                    std::fs::write(&p, b.as_slice())?;
                }
                Kind::Symlink(t) => std::os::unix::fs::symlink(OsStr::from_bytes(t), &p)?,
            }
        }
        // metadata: children first (reverse order), so that directory mtimes stick
        for (k, e) in self.entries.iter().rev() {
            let p = root.join(pk_to_path(k));
            if !matches!(e.kind, Kind::Symlink(_)) {
                std::fs::set_permissions(&p, std::fs::Permissions::from_mode(e.mode))?;
            }
            let ft = filetime::FileTime::from_unix_time(e.mtime.0, e.mtime.1);
            filetime::set_symlink_file_times(&p, ft, ft)?;
        }
        Ok(())
    }
}

// ---------------------------------------------------------------------------------------------
// content generators

#[derive(Clone, Copy, Debug, PartialEq, Eq, Hash, PartialOrd, Ord)]
pub enum ContentClass {
    Zero,
    Constant,
    Periodic,
    Random,
    /// random with a run of zeros inside (sparse-ish)
    Holes,
}

pub const CONTENT_CLASSES: [ContentClass; 5] = [
    ContentClass::Zero,
    ContentClass::Constant,
    ContentClass::Periodic,
    ContentClass::Random,
    ContentClass::Holes,
];

pub fn gen_content(r: &mut Rng, class: ContentClass, len: usize) -> Vec<u8> {
    match class {
        ContentClass::Zero => vec![0; len],
        ContentClass::Constant => vec![(r.below(255) + 1) as u8; len],
        ContentClass::Periodic => {
            let p = r.range(2, 97) as usize;
            let pat = r.bytes(p);
            (0..len).map(|i| pat[i % p]).collect()
        }
        ContentClass::Random => r.bytes(len),
        ContentClass::Holes => {
            let mut v = r.bytes(len);
            if len > 8 {
                let a = r.usize_below(len);
                let b = (a + r.usize_below(len - a + 1)).min(len);
                for x in &mut v[a..b] {
                    *x = 0;
                }
            }
            v
        }
    }
}

#[derive(Clone, Copy, Debug, PartialEq, Eq, Hash, PartialOrd, Ord)]
pub enum NameClass {
    Ascii,
    Utf8,
    InvalidUtf8,
    Escapes,
    Long,
    GlobMeta,
}

pub const NAME_CLASSES: [NameClass; 6] = [
    NameClass::Ascii,
    NameClass::Utf8,
    NameClass::InvalidUtf8,
    NameClass::Escapes,
    NameClass::Long,
    NameClass::GlobMeta,
];

pub fn gen_name(r: &mut Rng, class: NameClass) -> Vec<u8> {
    let base = |r: &mut Rng, n: usize| -> Vec<u8> {
        const A: &[u8] = b"abcdefghijklmnopqrstuvwxyz0123456789_-.";
        (0..n).map(|_| A[r.usize_below(A.len())]).collect()
    };
    let mut name = match class {
        NameClass::Ascii => {
            let n = r.range(1, 12) as usize;
            base(r, n)
        }
        NameClass::Utf8 => {
            const PARTS: [&str; 8] = ["ä", "ß", "日本", "🦀", "é", "Ω", "ñ", "中"];
            let mut v = { let n = r.range(0, 3) as usize; base(r, n) };
            for _ in 0..r.range(1, 4) {
                v.extend_from_slice(r.pick(&PARTS).as_bytes());
                v.extend({ let n = r.range(0, 2) as usize; base(r, n) });
            }
            v
        }
        NameClass::InvalidUtf8 => {
            let mut v = { let n = r.range(0, 4) as usize; base(r, n) };
            const BAD: [&[u8]; 6] = [b"\xff", b"\xc3", b"\xe2\x82", b"\x80", b"\xf0\x9f\x92", b"\xc0\xaf"];
            let bad: &[&[u8]] = &BAD;
            for _ in 0..r.range(1, 3) {
                let b: &[u8] = bad[r.usize_below(bad.len())];
                v.extend_from_slice(b);
                v.extend({ let n = r.range(0, 3) as usize; base(r, n) });
            }
            v
        }
        NameClass::Escapes => {
            const SP: [u8; 12] = [b'\\', b'"', 0x07, 0x08, 0x0c, b'\n', b'\r', b'\t', 0x0b, b'\'', b'`', b' '];
            let mut v = { let n = r.range(0, 3) as usize; base(r, n) };
            for _ in 0..r.range(1, 4) {
                v.push(*r.pick(&SP));
                // things that look like escape sequences after unescaping
                if r.chance(1, 3) {
                    v.extend_from_slice(*r.pick(&[&b"x41"[..], b"n", b"u0041", b"\\", b"t"]));
                }
                v.extend({ let n = r.range(0, 2) as usize; base(r, n) });
            }
            v
        }
        NameClass::Long => {
            let n = r.range(200, 255) as usize;
            base(r, n)
        }
        NameClass::GlobMeta => {
            const SP: [u8; 8] = [b'*', b'?', b'[', b']', b'{', b'}', b'!', b'#'];
            let mut v = { let n = r.range(1, 3) as usize; base(r, n) };
            for _ in 0..r.range(1, 3) {
                v.push(*r.pick(&SP));
                v.extend({ let n = r.range(0, 2) as usize; base(r, n) });
            }
            v
        }
    };
    name.retain(|b| *b != b'/' && *b != 0);
    if name.is_empty() || name == b"." || name == b".." {
        name = b"x".to_vec();
    }
    name.truncate(255);
    name
}

/// parameters steering tree generation
#[derive(Clone, Debug)]
pub struct TreeParams {
    pub max_entries: usize,
    pub max_depth: usize,
    /// interesting sizes (chunk/pack boundaries) to draw file sizes from
    pub sizes: Vec<usize>,
    pub name_classes: Vec<NameClass>,
    pub content_classes: Vec<ContentClass>,
    pub symlinks: bool,
    pub hardlinks: bool,
    /// setuid/setgid/sticky bits allowed
    pub special_bits: bool,
}

impl TreeParams {
    pub fn small(sizes: Vec<usize>) -> Self {
        Self {
            max_entries: 14,
            max_depth: 4,
            sizes,
            name_classes: NAME_CLASSES.to_vec(),
            content_classes: CONTENT_CLASSES.to_vec(),
            symlinks: true,
            hardlinks: false,
            special_bits: false,
        }
    }
}

pub fn gen_mtime(r: &mut Rng) -> (i64, u32) {
    match r.below(10) {
        0 => (0, 0),
        1 => (r.irange(1, 1_000_000), 0),
        2 => (r.irange(1_500_000_000, 1_800_000_000), 999_999_999),
        3 => (4_102_444_800 + r.irange(0, 1_000_000), r.below(1_000_000_000) as u32), // year 2100+
        _ => (r.irange(946_684_800, 1_790_000_000), r.below(1_000_000_000) as u32),
    }
}

pub fn gen_mode(r: &mut Rng, kind: &Kind, special: bool) -> u32 {
    let mut m = match kind {
        Kind::Dir => *r.pick(&[0o755, 0o700, 0o750, 0o775, 0o711]),
        Kind::File(_) => *r.pick(&[0o644, 0o600, 0o640, 0o755, 0o444, 0o400, 0o664, 0o000, 0o777, 0o111]),
        Kind::Symlink(_) => 0o777,
    };
    if special && r.chance(1, 8) {
        m |= *r.pick(&[0o4000, 0o2000, 0o1000]);
    }
    m
}

/// generate a tree. `extra_names` are forced names (e.g. escaping edge cases) used first.
pub fn gen_tree(r: &mut Rng, p: &TreeParams) -> ModelTree {
    let mut t = ModelTree::new();
    let n = r.range(1, p.max_entries as u64) as usize;
    let mut dirs: Vec<PathKey> = vec![vec![]];
    let mut group = 0u32;
    for _ in 0..n {
        let parent = r.pick(&dirs).clone();
        let nc = *r.pick(&p.name_classes);
        let mut path = parent.clone();
        path.push(gen_name(r, nc));
        if t.entries.contains_key(&path) {
            continue;
        }
        let what = r.below(100);
        let kind = if what < 22 && path.len() < p.max_depth {
            Kind::Dir
        } else if what < 32 && p.symlinks {
            let target = match r.below(5) {
                0 => b"/nonexistent/target".to_vec(),
                1 => {
                    let mut v = b"../".to_vec();
                    v.extend(gen_name(r, NameClass::Ascii));
                    v
                }
                2 => {
                    let mut v = gen_name(r, NameClass::InvalidUtf8);
                    v.extend_from_slice(b"/\xfe\xff");
                    v
                }
                3 => gen_name(r, NameClass::Utf8),
                _ => gen_name(r, NameClass::Escapes),
            };
            Kind::Symlink(target)
        } else {
            let len = *r.pick(&p.sizes);
            let cc = *r.pick(&p.content_classes);
            Kind::File(Arc::new(gen_content(r, cc, len)))
        };
        let mode = gen_mode(r, &kind, p.special_bits);
        let mtime = gen_mtime(r);
        if matches!(kind, Kind::Dir) {
            dirs.push(path.clone());
        }
        let e = Entry { kind, mode, mtime, hardlink: None };
        t.insert(path.clone(), e.clone());
        // hardlink partner
        if p.hardlinks && matches!(e.kind, Kind::File(_)) && r.chance(1, 6) {
            group += 1;
            let mut e2 = e.clone();
            e2.hardlink = Some(group);
            t.entries.get_mut(&path).unwrap().hardlink = Some(group);
            let parent2 = r.pick(&dirs).clone();
            let mut p2 = parent2;
            p2.push(gen_name(r, NameClass::Ascii));
            if !t.entries.contains_key(&p2) {
                t.insert(p2, e2);
            } else {
                t.entries.get_mut(&path).unwrap().hardlink = None;
            }
        }
    }
    // directories created implicitly by insert() keep default metadata; randomize all dir metadata
    let keys: Vec<_> = t.entries.keys().cloned().collect();
    for k in keys {
        let e = t.entries.get_mut(&k).unwrap();
        if matches!(e.kind, Kind::Dir) {
            e.mode = gen_mode(r, &Kind::Dir, false);
            e.mtime = gen_mtime(r);
        }
    }
    t
}

// ---------------------------------------------------------------------------------------------
// synthetic source

/// how a synthetic reader fragments its reads
#[derive(Clone, Copy, Debug, PartialEq, Eq, Hash)]
pub enum Frag {
    /// hand out whatever is asked for
    Whole,
    /// at most n bytes per read
    Max(usize),
    /// pseudo-random short reads (seeded)
    Random(u64),
    /// like Random, and sprinkle `Interrupted` errors
    RandomInterrupted(u64),
}

pub struct FragReader {
    data: Arc<Vec<u8>>,
    pos: usize,
    frag: Frag,
    rng: Rng,
    calls: u64,
}

impl FragReader {
    pub fn new(data: Arc<Vec<u8>>, frag: Frag) -> Self {
        let seed = match frag {
            Frag::Random(s) | Frag::RandomInterrupted(s) => s,
            _ => 0,
        };
        Self { data, pos: 0, frag, rng: Rng::new(seed), calls: 0 }
    }
}

impl Read for FragReader {
    fn read(&mut self, buf: &mut [u8]) -> std::io::Result<usize> {
        self.calls += 1;
        let rem = self.data.len() - self.pos;
        if buf.is_empty() {
            return Ok(0);
        }
        let want = buf.len().min(rem);
        let n = match self.frag {
            Frag::Whole => want,
            Frag::Max(m) => want.min(m.max(1)),
            Frag::Random(_) => {
                if want == 0 {
                    0
                } else {
                    match self.rng.below(4) {
                        0 => 1,
                        1 => want,
                        2 => want.min(4095 + self.rng.usize_below(3)),
                        _ => 1 + self.rng.usize_below(want),
                    }
                }
            }
            Frag::RandomInterrupted(_) => {
                if self.rng.chance(1, 5) {
                    return Err(std::io::Error::new(std::io::ErrorKind::Interrupted, "injected EINTR"));
                }
                if want == 0 { 0 } else { 1 + self.rng.usize_below(want) }
            }
        };
        buf[..n].copy_from_slice(&self.data[self.pos..self.pos + n]);
        self.pos += n;
        Ok(n)
    }
}

#[derive(Clone)]
pub struct SynthOpen {
    pub data: Arc<Vec<u8>>,
    pub frag: Frag,
}

impl ReadSourceOpen for SynthOpen {
    type Reader = FragReader;
    fn open(self) -> RusticResult<Self::Reader> {
        Ok(FragReader::new(self.data, self.frag))
    }
}

#[derive(Clone)]
pub struct SynthEntry {
    pub path: PathBuf,
    pub node: Node,
    pub data: Option<Arc<Vec<u8>>>,
}

#[derive(Clone)]
pub struct SynthSource {
    pub entries: Vec<SynthEntry>,
    pub frag: Frag,
}

impl ReadSource for SynthSource {
    type Open = SynthOpen;
    type Iter = std::vec::IntoIter<RusticResult<ReadSourceEntry<SynthOpen>>>;

    fn size(&self) -> RusticResult<Option<u64>> {
        Ok(Some(self.entries.iter().map(|e| e.data.as_ref().map_or(0, |d| d.len() as u64)).sum()))
    }

    fn entries(&self) -> Self::Iter {
        self.entries
            .iter()
            .map(|e| {
                Ok(ReadSourceEntry {
                    path: e.path.clone(),
                    node: e.node.clone(),
                    open: e.data.clone().map(|data| SynthOpen { data, frag: self.frag }),
                })
            })
            .collect::<Vec<_>>()
            .into_iter()
    }
}

pub fn ts(t: (i64, u32)) -> jiff::Timestamp {
    jiff::Timestamp::new(t.0, t.1 as i32).expect("timestamp in range")
}

/// metadata a synthetic node gets (deterministic: no uid/gid/user lookups, no inode)
pub fn synth_meta(e: &Entry) -> Metadata {
    let size = match &e.kind {
        Kind::File(b) => b.len() as u64,
        _ => 0,
    };
    Metadata {
        mode: Some(go_mode(&e.kind, e.mode)),
        mtime: Some(ts(e.mtime)),
        atime: Some(ts(e.mtime)),
        ctime: Some(ts(e.mtime)),
        uid: Some(0),
        gid: Some(0),
        user: None,
        group: None,
        inode: 0,
        device_id: 0,
        size,
        links: if matches!(e.kind, Kind::Dir) { 0 } else { 1 },
        extended_attributes: Vec::new(),
    }
}

pub fn synth_node(name: &[u8], e: &Entry) -> Node {
    let nt = match &e.kind {
        Kind::File(_) => NodeType::File,
        Kind::Dir => NodeType::Dir,
        Kind::Symlink(t) => NodeType::from_link(Path::new(OsStr::from_bytes(t))),
    };
    Node::new_node(OsStr::from_bytes(name), nt, synth_meta(e))
}

impl ModelTree {
    /// synthetic realisation rooted at `root` (a relative or absolute path prefix, e.g. "/src")
    pub fn synth_source(&self, root: &Path, frag: Frag) -> SynthSource {
        let entries = self
            .entries
            .iter()
            .map(|(k, e)| SynthEntry {
                path: root.join(pk_to_path(k)),
                node: synth_node(k.last().unwrap(), e),
                data: match &e.kind {
                    Kind::File(b) => Some(b.clone()),
                    _ => None,
                },
            })
            .collect();
        SynthSource { entries, frag }
    }
}

// ---------------------------------------------------------------------------------------------
// edit scripts

#[derive(Clone, Debug, PartialEq, Eq, Hash, PartialOrd, Ord)]
pub enum EditKind {
    AddFile,
    RemoveEntry,
    ModifySameSize,
    ModifyGrow,
    ModifyShrink,
    InsertBytes,
    DeleteBytes,
    Touch,
    Chmod,
    Rename,
    DuplicateFile,
    TypeChange,
}

pub const ALL_EDITS: [EditKind; 12] = [
    EditKind::AddFile,
    EditKind::RemoveEntry,
    EditKind::ModifySameSize,
    EditKind::ModifyGrow,
    EditKind::ModifyShrink,
    EditKind::InsertBytes,
    EditKind::DeleteBytes,
    EditKind::Touch,
    EditKind::Chmod,
    EditKind::Rename,
    EditKind::DuplicateFile,
    EditKind::TypeChange,
];

fn bump(m: (i64, u32)) -> (i64, u32) {
    (m.0 + 1, (m.1 + 7) % 1_000_000_000)
}

/// apply one random edit; returns what was done (None if not applicable)
pub fn apply_edit(r: &mut Rng, t: &mut ModelTree, kind: &EditKind, p: &TreeParams) -> Option<String> {
    let files: Vec<PathKey> = t.files().map(|(k, _)| k.clone()).collect();
    let all: Vec<PathKey> = t.entries.keys().cloned().collect();
    let dirs: Vec<PathKey> = std::iter::once(vec![])
        .chain(t.entries.iter().filter(|(_, e)| matches!(e.kind, Kind::Dir)).map(|(k, _)| k.clone()))
        .collect();
    let new_name = |r: &mut Rng, t: &ModelTree| -> PathKey {
        loop {
            let mut pth = r.pick(&dirs).clone();
            let nc = *r.pick(&p.name_classes);
            pth.push(gen_name(r, nc));
            if !t.entries.contains_key(&pth) {
                return pth;
            }
        }
    };
    match kind {
        EditKind::AddFile => {
            let pth = new_name(r, t);
            let len = *r.pick(&p.sizes);
            let cc = *r.pick(&p.content_classes);
            let kind = Kind::File(Arc::new(gen_content(r, cc, len)));
            let mode = gen_mode(r, &kind, false);
            t.insert(pth.clone(), Entry { kind, mode, mtime: gen_mtime(r), hardlink: None });
            Some(format!("add {}", pk_display(&pth)))
        }
        EditKind::RemoveEntry => {
            if all.is_empty() {
                return None;
            }
            let pth = r.pick(&all).clone();
            t.remove_subtree(&pth);
            Some(format!("remove {}", pk_display(&pth)))
        }
        EditKind::ModifySameSize | EditKind::ModifyGrow | EditKind::ModifyShrink | EditKind::InsertBytes | EditKind::DeleteBytes => {
            if files.is_empty() {
                return None;
            }
            let pth = r.pick(&files).clone();
            let e = t.entries.get_mut(&pth).unwrap();
            let Kind::File(old) = &e.kind else { return None };
            let mut v = old.as_ref().clone();
            let desc;
            match kind {
                EditKind::ModifySameSize => {
                    if v.is_empty() {
                        return None;
                    }
                    let a = r.usize_below(v.len());
                    let n = 1 + r.usize_below((v.len() - a).min(64));
                    for x in &mut v[a..a + n] {
                        *x = x.wrapping_add(1 + (r.below(254) as u8));
                    }
                    desc = format!("overwrite {n}@{a}");
                }
                EditKind::ModifyGrow => {
                    let n = 1 + r.usize_below(300);
                    v.extend(r.bytes(n));
                    desc = format!("append {n}");
                }
                EditKind::ModifyShrink => {
                    if v.is_empty() {
                        return None;
                    }
                    let n = 1 + r.usize_below(v.len());
                    v.truncate(v.len() - n);
                    desc = format!("truncate -{n}");
                }
                EditKind::InsertBytes => {
                    let a = r.usize_below(v.len() + 1);
                    let n = 1 + r.usize_below(200);
                    let ins = r.bytes(n);
                    let _ = v.splice(a..a, ins);
                    desc = format!("insert {n}@{a}");
                }
                _ => {
                    if v.is_empty() {
                        return None;
                    }
                    let a = r.usize_below(v.len());
                    let n = 1 + r.usize_below((v.len() - a).min(200));
                    let _ = v.drain(a..a + n);
                    desc = format!("delete {n}@{a}");
                }
            }
            e.kind = Kind::File(Arc::new(v));
            e.mtime = bump(e.mtime);
            e.hardlink = None;
            Some(format!("{desc} in {}", pk_display(&pth)))
        }
        EditKind::Touch => {
            if all.is_empty() {
                return None;
            }
            let pth = r.pick(&all).clone();
            let e = t.entries.get_mut(&pth).unwrap();
            e.mtime = bump(e.mtime);
            Some(format!("touch {}", pk_display(&pth)))
        }
        EditKind::Chmod => {
            let cands: Vec<_> = all.iter().filter(|k| !matches!(t.entries[*k].kind, Kind::Symlink(_))).cloned().collect();
            if cands.is_empty() {
                return None;
            }
            let pth = r.pick(&cands).clone();
            let e = t.entries.get_mut(&pth).unwrap();
            e.mode = if matches!(e.kind, Kind::Dir) { if e.mode == 0o755 { 0o700 } else { 0o755 } } else if e.mode == 0o644 { 0o600 } else { 0o644 };
            Some(format!("chmod {}", pk_display(&pth)))
        }
        EditKind::Rename => {
            if files.is_empty() {
                return None;
            }
            let from = r.pick(&files).clone();
            let to = new_name(r, t);
            let mut e = t.entries.remove(&from).unwrap();
            e.hardlink = None;
            t.insert(to.clone(), e);
            Some(format!("rename {} -> {}", pk_display(&from), pk_display(&to)))
        }
        EditKind::DuplicateFile => {
            if files.is_empty() {
                return None;
            }
            let from = r.pick(&files).clone();
            let to = new_name(r, t);
            let mut e = t.entries[&from].clone();
            e.hardlink = None;
            t.insert(to.clone(), e);
            Some(format!("dup {} -> {}", pk_display(&from), pk_display(&to)))
        }
        EditKind::TypeChange => {
            if all.is_empty() {
                return None;
            }
            let pth = r.pick(&all).clone();
            let old = t.entries[&pth].clone();
            t.remove_subtree(&pth);
            let kind = match old.kind {
                Kind::File(_) => {
                    if r.chance(1, 2) { Kind::Dir } else { Kind::Symlink(b"tgt".to_vec()) }
                }
                Kind::Dir => {
                    if r.chance(1, 2) { Kind::File(Arc::new(r.bytes(10))) } else { Kind::Symlink(b"tgt2".to_vec()) }
                }
                Kind::Symlink(_) => {
                    if r.chance(1, 2) { Kind::Dir } else { Kind::File(Arc::new(r.bytes(33))) }
                }
            };
            let mode = gen_mode(r, &kind, false);
            t.insert(pth.clone(), Entry { kind, mode, mtime: bump(old.mtime), hardlink: None });
            Some(format!("typechange {}", pk_display(&pth)))
        }
    }
}
