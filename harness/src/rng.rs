//! Deterministic RNG (SplitMix64). Everything random in the harness derives from `VERIF_SEED`.

#[derive(Clone, Debug)]
pub struct Rng(pub u64);

impl Rng {
    pub fn new(seed: u64) -> Self {
        let mut r = Self(seed ^ 0x9E37_79B9_7F4A_7C15);
        let _ = r.next_u64();
        r
    }

    /// derive an independent stream for (self.seed, label)
    pub fn fork(&self, label: u64) -> Self {
        let mut r = Self(self.0 ^ label.wrapping_mul(0xD6E8_FEB8_6659_FD93));
        let _ = r.next_u64();
        let _ = r.next_u64();
        r
    }

    pub fn next_u64(&mut self) -> u64 {
        self.0 = self.0.wrapping_add(0x9E37_79B9_7F4A_7C15);
        let mut z = self.0;
        z = (z ^ (z >> 30)).wrapping_mul(0xBF58_476D_1CE4_E5B9);
        z = (z ^ (z >> 27)).wrapping_mul(0x94D0_49BB_1331_11EB);
        z ^ (z >> 31)
    }

    /// uniform in 0..n (n > 0)
    pub fn below(&mut self, n: u64) -> u64 {
        if n == 0 {
            return 0;
        }
        self.next_u64() % n
    }

    pub fn usize_below(&mut self, n: usize) -> usize {
        self.below(n as u64) as usize
    }

    /// uniform in lo..=hi
    pub fn range(&mut self, lo: u64, hi: u64) -> u64 {
        if hi <= lo {
            return lo;
        }
        lo + self.below(hi - lo + 1)
    }

    pub fn irange(&mut self, lo: i64, hi: i64) -> i64 {
        if hi <= lo {
            return lo;
        }
        lo + self.below((hi - lo + 1) as u64) as i64
    }

    /// true with probability num/den
    pub fn chance(&mut self, num: u64, den: u64) -> bool {
        self.below(den) < num
    }

    pub fn pick<'a, T>(&mut self, v: &'a [T]) -> &'a T {
        &v[self.usize_below(v.len())]
    }

    pub fn bytes(&mut self, n: usize) -> Vec<u8> {
        let mut v = Vec::with_capacity(n + 8);
        while v.len() < n {
            v.extend_from_slice(&self.next_u64().to_le_bytes());
        }
        v.truncate(n);
        v
    }

    /// random bytes of a random length in lo..=hi
    pub fn rbytes(&mut self, lo: usize, hi: usize) -> Vec<u8> {
        let n = self.range(lo as u64, hi as u64) as usize;
        self.bytes(n)
    }

    pub fn fill(&mut self, buf: &mut [u8]) {
        for c in buf.chunks_mut(8) {
            let b = self.next_u64().to_le_bytes();
            c.copy_from_slice(&b[..c.len()]);
        }
    }

    pub fn shuffle<T>(&mut self, v: &mut [T]) {
        for i in (1..v.len()).rev() {
            let j = self.usize_below(i + 1);
            v.swap(i, j);
        }
    }

    /// random subset: each element with probability num/den
    pub fn subset<T: Clone>(&mut self, v: &[T], num: u64, den: u64) -> Vec<T> {
        v.iter().filter(|_| self.chance(num, den)).cloned().collect()
    }
}

pub fn fnv(data: &[u8]) -> u64 {
    let mut h: u64 = 0xcbf2_9ce4_8422_2325;
    for b in data {
        h ^= u64::from(*b);
        h = h.wrapping_mul(0x0100_0000_01b3);
    }
    h
}
