//! read a snapshot back through every public path and compare with a `ModelTree`

use std::{
    collections::BTreeMap,
    os::unix::ffi::OsStrExt,
    os::unix::fs::MetadataExt,
    path::Path,
    sync::Arc,
};

use rustic_core::{
    IndexedFull, LocalDestination, LsOptions, Repository, RestoreOptions, RusticResult,
    repofile::{Node, NodeType, SnapshotFile},
};

use crate::{
    model::{Kind, ModelTree, PathKey, path_to_pk, perm_from_go, pk_display},
    repo::ROOT,
    rng::Rng,
};

#[derive(Clone, Debug, PartialEq, Eq)]
pub struct ObsEntry {
    pub kind: Kind,
    pub mode: Option<u32>,
    pub mtime: Option<(i64, u32)>,
    /// (dev, ino) on disk observations
    pub ino: Option<(u64, u64)>,
    /// recorded size (listing) or actual size (disk)
    pub size: u64,
}

pub type Observed = BTreeMap<PathKey, ObsEntry>;

pub fn node_kind_bytes(node: &Node, content: Option<Vec<u8>>) -> Result<Kind, String> {
    Ok(match &node.node_type {
        NodeType::File => Kind::File(Arc::new(content.unwrap_or_default())),
        NodeType::Dir => Kind::Dir,
        NodeType::Symlink { .. } => Kind::Symlink(node.node_type.to_link().as_os_str().as_bytes().to_vec()),
        other => return Err(format!("unexpected node type {other}")),
    })
}

fn ts_pair(t: Option<jiff::Timestamp>) -> Option<(i64, u32)> {
    t.map(|t| (t.as_second(), t.subsec_nanosecond() as u32))
}

/// the node for the harness root `r` of a snapshot
pub fn root_node<S: IndexedFull>(repo: &Repository<S>, snap: &SnapshotFile) -> RusticResult<Node> {
    repo.node_from_snapshot_and_path(snap, ROOT)
}

/// listing + dump of every file (+ ranged reads cross-checked against the dump)
pub fn observe_ls_dump<S: IndexedFull>(
    repo: &Repository<S>,
    snap: &SnapshotFile,
    rng: &mut Rng,
    ranged_reads: usize,
) -> Result<Observed, String> {
    match root_node_opt(repo, snap)? {
        // an empty source produces an empty root tree (no `r` entry at all)
        None => Ok(Observed::new()),
        Some(root) => observe_node(repo, &root, rng, ranged_reads),
    }
}

/// the `r` node of the snapshot's root tree, None if the root tree has no such entry
pub fn root_node_opt<S: IndexedFull>(repo: &Repository<S>, snap: &SnapshotFile) -> Result<Option<Node>, String> {
    let tree = repo.get_tree(&snap.tree).map_err(|e| format!("root tree: {}", crate::repo::errstr(&e)))?;
    Ok(tree.nodes.into_iter().find(|n| n.name().as_bytes() == ROOT.as_bytes()))
}

pub fn observe_node<S: IndexedFull>(
    repo: &Repository<S>,
    root: &Node,
    rng: &mut Rng,
    ranged_reads: usize,
) -> Result<Observed, String> {
    let mut obs = Observed::new();
    let ls = repo.ls(root, &LsOptions::default()).map_err(|e| format!("ls: {}", crate::repo::errstr(&e)))?;
    for item in ls {
        let (path, node) = item.map_err(|e| format!("ls item: {}", crate::repo::errstr(&e)))?;
        let key = path_to_pk(&path);
        let content = if node.is_file() {
            let mut buf = Vec::new();
            repo.dump(&node, &mut buf).map_err(|e| format!("dump {}: {}", path.display(), crate::repo::errstr(&e)))?;
            // ranged reads must agree with the dump
            if ranged_reads > 0 {
                let of = repo.open_file(&node).map_err(|e| format!("open_file {}: {}", path.display(), crate::repo::errstr(&e)))?;
                for i in 0..ranged_reads {
                    let len = buf.len();
                    let (off, l) = match i {
                        0 => (0, len),
                        1 => (len, 10),
                        2 => (len + 5, 3),
                        3 => (0, len + 17),
                        _ => {
                            let off = rng.usize_below(len + 1);
                            (off, rng.usize_below(len - off + 2))
                        }
                    };
                    let got = repo
                        .read_file_at(&of, off, l)
                        .map_err(|e| format!("read_file_at {} off {off} len {l}: {}", path.display(), crate::repo::errstr(&e)))?;
                    let exp: &[u8] = if off >= len { &[] } else { &buf[off..(off + l).min(len)] };
                    if got.as_ref() != exp {
                        return Err(format!(
                            "RANGED-READ-MISMATCH {} off {off} len {l}: got {} bytes, expected {} bytes",
                            path.display(),
                            got.len(),
                            exp.len()
                        ));
                    }
                }
            }
            Some(buf)
        } else {
            None
        };
        let kind = node_kind_bytes(&node, content)?;
        let e = ObsEntry {
            kind,
            mode: node.meta.mode.map(perm_from_go),
            mtime: ts_pair(node.meta.mtime),
            ino: None,
            size: node.meta.size,
        };
        if obs.insert(key.clone(), e).is_some() {
            return Err(format!("DUPLICATE-PATH in listing: {}", pk_display(&key)));
        }
    }
    Ok(obs)
}

/// lstat walk of a directory
pub fn observe_disk(root: &Path) -> Result<Observed, String> {
    fn walk(dir: &Path, prefix: &PathKey, obs: &mut Observed) -> Result<(), String> {
        let mut names: Vec<_> = std::fs::read_dir(dir)
            .map_err(|e| format!("read_dir {}: {e}", dir.display()))?
            .map(|e| e.map(|e| e.file_name()))
            .collect::<Result<_, _>>()
            .map_err(|e| format!("read_dir entry: {e}"))?;
        names.sort();
        for name in names {
            let p = dir.join(&name);
            let m = std::fs::symlink_metadata(&p).map_err(|e| format!("lstat {}: {e}", p.display()))?;
            let mut key = prefix.clone();
            key.push(name.as_bytes().to_vec());
            let ft = m.file_type();
            let kind = if ft.is_dir() {
                Kind::Dir
            } else if ft.is_symlink() {
                Kind::Symlink(std::fs::read_link(&p).map_err(|e| format!("readlink: {e}"))?.as_os_str().as_bytes().to_vec())
            } else if ft.is_file() {
                Kind::File(Arc::new(std::fs::read(&p).map_err(|e| format!("read {}: {e}", p.display()))?))
            } else {
                return Err(format!("unexpected file type at {}", p.display()));
            };
            let is_dir = matches!(kind, Kind::Dir);
            let _ = obs.insert(
                key.clone(),
                ObsEntry {
                    kind,
                    mode: Some(m.mode() & 0o7777),
                    mtime: Some((m.mtime(), m.mtime_nsec() as u32)),
                    ino: Some((m.dev(), m.ino())),
                    size: m.len(),
                },
            );
            if is_dir {
                walk(&p, &key, obs)?;
            }
        }
        Ok(())
    }
    let mut obs = Observed::new();
    walk(root, &Vec::new(), &mut obs)?;
    Ok(obs)
}

/// restore the harness root of `snap` into `dest` (created if missing)
pub fn restore_to<S: IndexedFull>(
    repo: &Repository<S>,
    snap: &SnapshotFile,
    dest: &Path,
    opts: &RestoreOptions,
) -> Result<(), String> {
    match root_node_opt(repo, snap)? {
        None => std::fs::create_dir_all(dest).map_err(|e| format!("create dest: {e}")),
        Some(root) => restore_node_to(repo, &root, dest, opts),
    }
}

pub fn restore_node_to<S: IndexedFull>(
    repo: &Repository<S>,
    root: &Node,
    dest: &Path,
    opts: &RestoreOptions,
) -> Result<(), String> {
    let d = LocalDestination::new(dest.to_str().ok_or("dest not utf8")?, true, !root.is_dir())
        .map_err(|e| format!("LocalDestination: {}", crate::repo::errstr(&e)))?;
    let ls = repo.ls(root, &LsOptions::default()).map_err(|e| format!("ls: {}", crate::repo::errstr(&e)))?;
    let plan = repo.prepare_restore(opts, ls.clone(), &d, false).map_err(|e| format!("prepare_restore: {}", crate::repo::errstr(&e)))?;
    repo.restore(plan, opts, ls, &d).map_err(|e| format!("restore: {}", crate::repo::errstr(&e)))
}

#[derive(Clone, Copy, Debug)]
pub struct CmpOpts {
    pub mode: bool,
    pub mtime: bool,
    /// directory mtimes are compared too
    pub dir_mtime: bool,
    /// symlink mtimes are compared
    pub link_mtime: bool,
}

impl CmpOpts {
    pub const ALL: Self = Self { mode: true, mtime: true, dir_mtime: true, link_mtime: true };
    pub const CONTENT: Self = Self { mode: false, mtime: false, dir_mtime: false, link_mtime: false };
}

/// differences between the model and an observation (empty = equal)
pub fn diff_model(model: &ModelTree, obs: &Observed, o: CmpOpts) -> Vec<String> {
    let mut d = Vec::new();
    for (k, e) in &model.entries {
        match obs.get(k) {
            None => d.push(format!("MISSING {}", pk_display(k))),
            Some(oe) => {
                match (&e.kind, &oe.kind) {
                    (Kind::File(a), Kind::File(b)) => {
                        if a != b {
                            let first = a.iter().zip(b.iter()).position(|(x, y)| x != y).unwrap_or(a.len().min(b.len()));
                            d.push(format!(
                                "CONTENT {} model_len={} obs_len={} first_diff={first}",
                                pk_display(k),
                                a.len(),
                                b.len()
                            ));
                        }
                        if oe.size != a.len() as u64 {
                            d.push(format!("SIZE {} model={} obs={}", pk_display(k), a.len(), oe.size));
                        }
                    }
                    (Kind::Dir, Kind::Dir) => {}
                    (Kind::Symlink(a), Kind::Symlink(b)) => {
                        if a != b {
                            d.push(format!(
                                "LINKTARGET {} model={:?} obs={:?}",
                                pk_display(k),
                                String::from_utf8_lossy(a),
                                String::from_utf8_lossy(b)
                            ));
                        }
                    }
                    (a, b) => d.push(format!("TYPE {} model={} obs={}", pk_display(k), kname(a), kname(b))),
                }
                let is_link = matches!(e.kind, Kind::Symlink(_));
                let is_dir = matches!(e.kind, Kind::Dir);
                if o.mode && !is_link && oe.mode != Some(e.mode) {
                    d.push(format!("MODE {} model={:o} obs={:?}", pk_display(k), e.mode, oe.mode.map(|m| format!("{m:o}"))));
                }
                if o.mtime && (!is_dir || o.dir_mtime) && (!is_link || o.link_mtime) && oe.mtime != Some(e.mtime) {
                    d.push(format!("MTIME {} model={:?} obs={:?}", pk_display(k), e.mtime, oe.mtime));
                }
            }
        }
    }
    for k in obs.keys() {
        if !model.entries.contains_key(k) {
            d.push(format!("EXTRA {}", pk_display(k)));
        }
    }
    d
}

fn kname(k: &Kind) -> &'static str {
    match k {
        Kind::File(_) => "file",
        Kind::Dir => "dir",
        Kind::Symlink(_) => "symlink",
    }
}

/// differences between two observations
pub fn diff_obs(a: &Observed, b: &Observed, o: CmpOpts) -> Vec<String> {
    let mut d = Vec::new();
    for (k, ea) in a {
        match b.get(k) {
            None => d.push(format!("MISSING {}", pk_display(k))),
            Some(eb) => {
                if ea.kind != eb.kind {
                    d.push(format!("CONTENT/TYPE {}", pk_display(k)));
                }
                let is_link = matches!(ea.kind, Kind::Symlink(_));
                let is_dir = matches!(ea.kind, Kind::Dir);
                if o.mode && !is_link && ea.mode != eb.mode {
                    d.push(format!("MODE {}", pk_display(k)));
                }
                if o.mtime && (!is_dir || o.dir_mtime) && (!is_link || o.link_mtime) && ea.mtime != eb.mtime {
                    d.push(format!("MTIME {}", pk_display(k)));
                }
            }
        }
    }
    for k in b.keys() {
        if !a.contains_key(k) {
            d.push(format!("EXTRA {}", pk_display(k)));
        }
    }
    d
}

/// hardlink groups of the model must share an inode on disk
pub fn diff_hardlinks(model: &ModelTree, obs: &Observed) -> Vec<String> {
    let mut groups: BTreeMap<u32, Vec<&PathKey>> = BTreeMap::new();
    for (k, e) in &model.entries {
        if let Some(g) = e.hardlink {
            groups.entry(g).or_default().push(k);
        }
    }
    let mut d = Vec::new();
    for (g, paths) in groups {
        let inos: Vec<_> = paths.iter().filter_map(|p| obs.get(*p).and_then(|e| e.ino)).collect();
        if inos.len() == paths.len() && inos.windows(2).any(|w| w[0] != w[1]) {
            d.push(format!("HARDLINK group {g} not linked: {}", paths.iter().map(|p| pk_display(p)).collect::<Vec<_>>().join(",")));
        }
    }
    d
}
