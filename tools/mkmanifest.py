#!/usr/bin/env python3
"""Regenerates /verif/MANIFEST.json from the table below (single source of truth)."""
import json, subprocess, os

ROOT = os.path.dirname(os.path.dirname(os.path.abspath(__file__)))

# id -> (level category, technique, level text, level note, design ref)
CHECKS = {}

def add(pid, cat, technique, text, note, ref):
    CHECKS[pid] = dict(cat=cat, technique=technique, text=text, note=note, ref=ref)

add("C06", "exploration",
    "runtime monitor: real chunker (hook H1) on generated streams vs. table-free GF(2) reference chunker + partition/bounds/fragmentation/locality oracles, overflow-checking build",
    "Held on the generated (parameters x stream x read-fragmentation) executions; every chunk sequence the library produced was compared with an independent reference implementation of the rule the property states. Sampling, not proof: parameters and streams are drawn from boundary-aimed generators.",
    "Trusts the harness's reference fingerprint (written from the property text, cross-validated by the equality counter in evidence), SHA/IO of std. Hook H1 exposes ChunkIter::from_config unchanged.",
    "DESIGN.md section 5 C06")

add("C01", "exploration",
    "runtime monitor: generated trees x generated configs backed up by the real library on an instrumented store; ls, dump, ranged reads and restore-to-disk compared with the generator's model; check(read_data) must be clean",
    "Held on the executions observed: every read path of every generated (configuration, tree) case returned exactly the model's bytes, names, types, link targets, permission bits and mtimes. Inputs are sampled from boundary-aimed generators (chunk/pack sizes, escaping, invalid UTF-8, tree/data id collisions), not enumerated.",
    "Trusts the harness model/generator, the in-memory exact-map store, std fs calls used for the on-disk realisation (tmp dir under /verif/work) and lstat for observation.",
    "DESIGN.md section 5 C01")

add("C07", "exploration",
    "runtime monitor over backup histories: raw index files parsed by an independent decoder before/after each run; set equations (new = referenced - before), no re-upload, unchanged => nothing new, summary counters, referenced chunks == independent reference chunker",
    "Held on the observed histories (3-6 backups each, edit scripts incl. byte inserts/deletes inside multi-chunk files, renames, duplicates, type changes) on generated configurations; decided from what reached storage, not from the library's own counters.",
    "Trusts the harness's independent AES-CTR/Poly1305 + index/tree JSON parser and reference chunker. In-run duplicates (same run, index not yet reloaded) are counted but not judged, as the property states.",
    "DESIGN.md section 5 C07")

add("C09", "exploration",
    "runtime monitor: KeepOptions::apply on generated boundary-clustered snapshot sets vs. a reference implementation of the stated keep rules (own civil/ISO-week arithmetic, set formulation) + monotonicity and order-invariance metamorphic checks",
    "Held on the generated (timestamps x options) cases: the keep flag of every snapshot equalled the reference. Sampling aimed at period boundaries (incl. ISO week-year edges); not exhaustive.",
    "Trusts the harness reference (written from the property text) and jiff's Zoned construction for fixed offsets. DST zones, delete_unchanged and calendar-unit keep-within spans are outside the exact comparison (stated in evidence assumptions).",
    "DESIGN.md section 5 C09")

add("C03", "fault_enumeration",
    "runtime monitor at the storage boundary: ordered log of write/remove calls of each command (one lock = true storage order, several seeded-delay linearisations); every prefix state rebuilt and every listed snapshot fully read back; every single mutating call failed in turn (no effect / effect-then-error) and command result + resulting state judged",
    "For each recorded linearisation the enumeration of crash prefixes and single faults is complete (exhaustive per recorded execution); commands, configurations, source trees and further linearisations are sampled. 18 command variants per scenario (backup, forget, 5 prune modes, copy, merge, rewrite, repair snapshots/index, config).",
    "Assumes storage applies acknowledged calls in order and atomically per call (the in-memory universe store); a panic in answer to an injected fault is recorded as loud failure, not judged.",
    "DESIGN.md section 5 C03")

add("C17", "exploration",
    "runtime monitor: real index (hook H3, three modes) and Repository::get_index_entry on planted encrypted index files vs. a multimap model built from the same generated index files",
    "Held on the generated index-file sets: has/get_id/total_size/pack iteration agreed with the multimap model for all present ids, their one-bit neighbours and random ids. Sampled, not exhaustive.",
    "Trusts the harness multimap model and its raw index-file writer (own AES-CTR/Poly1305). Homogeneous packs only.",
    "DESIGN.md section 5 C17")

add("C15", "fault_enumeration",
    "runtime monitor: online checker in the storage universe fires on any remove/overwrite of snapshot, index or pack files while random programs of public operations run on an append-only repository; refused commands must produce zero mutating events; dry-run commands must produce zero write/remove events",
    "Held on the generated programs (3-10 operations each over all destructive and non-destructive entry points with generated options) and on the dry-run sweep over intact and damaged repositories; decided from the complete storage event log, not from return values.",
    "Assumes every storage access goes through ReadBackend/WriteBackend (true for rustic_core); key files are not named by the statement and not judged.",
    "DESIGN.md section 5 C15")

add("C16", "exploration",
    "runtime monitor: online hot-superset-of-cold invariant evaluated after EVERY storage event of hot+cold stores under one lock (= every prefix of the combined sequence), cold store rejecting unwarmed reads + warm-before-read log check, differential run against a single-store twin, hot-store damage + repair",
    "Held on the generated histories and repair cases; the per-event invariant covers every interruption point of the executions observed. check --read-data on hot/cold is a listed known finding.",
    "Trusts the harness's independent pack-trailer parser for pack types; prune internals are not compared with the twin.",
    "DESIGN.md section 5 C16")

add("C02", "exploration",
    "runtime monitor over backup/forget/prune histories with planted index anomalies: after every step all snapshots are read back and compared with their source model, reachability is re-derived by an independent raw parser, check(read_data) runs after every prune, and the storage event log of each prune is checked against the two-phase-delete rule",
    "Held on the generated histories (4-12 steps; all prune options; anomalies: duplicated index file, pack in two index files, pack both used and marked, unreferenced packs, aged marks on both sides of keep-delete, duplicate blobs, tree/data id collision, stale-index backup followed by a recovering prune). Sampling, not proof.",
    "Trusts the harness's raw repository reader/writer and the harness clock for the keep-delete boundary (marks are aged 2 min / 10 min away from it).",
    "DESIGN.md section 5 C02")

add("C05", "fault_enumeration",
    "runtime monitor: for every enumerated single-file fault (remove, truncations, bit flips at every structural position, extension, sibling replacement, index-semantic edits) run the real check(read_data) and, on the same damaged state, read every snapshot completely and compare with its recorded content; violation iff check is clean and a snapshot is unreadable or different",
    "Thorough tier enumerates all listed fault kinds on every stored file of the target repositories (exhaustive per target); targets, flip bit numbers and (in quick) flip positions / sibling pairs are sampled. Targets include equal-layout packs and packs holding only root trees.",
    "Trusts the harness's recorded snapshot contents and raw index writer; check returning Err or panicking counts as reporting.",
    "DESIGN.md section 5 C05")

add("C08", "exploration",
    "runtime monitor: after every pack-producing command every pack in storage is decoded by the harness's independent parser and compared with the raw index; then index files are removed in all subsets (<=4) and repair_index + check + full reads must reproduce the same repository",
    "Held on the generated histories over all pack producers (backup, prune repack variants, copy across keys/configs, merge, rewrite, config changes). Sampling of histories; subset enumeration complete up to 4 index files.",
    "Trusts the harness's AES-CTR/Poly1305-AES composition, trailer decoder, zstd and SHA-256 calls.",
    "DESIGN.md section 5 C08")

add("C04", "exploration",
    "runtime monitor: raw storage scan with planted markers + independent AES-CTR/Poly1305-AES authentication of every stored message + nonce-set monitor over whole histories and high-volume hook-H2 runs; tamper matrix with the oracle 'read fails or returns the original'; key histories against a set model",
    "Held on the histories, messages, faults and key traces observed (two listed known findings: substituted snapshot/index file and substituted equal-layout pack are served without error). Cryptographic strength is not decided; nonce freshness is observed on 10^4-10^5 messages.",
    "Trusts the harness's own composition of AES-256-CTR and Poly1305-AES from the primitive crates, its marker generator and raw parsers.",
    "DESIGN.md section 5 C04")

add("C10", "exploration",
    "runtime monitor with a storage gate: one command is parked at its k-th backend operation (every k) while the other runs to completion on the same store, then resumes; afterwards a follow-up prune, check(read_data), full reads against source models and an independent raw reachability scan",
    "Held on the interleavings produced (operation-granular positions of backup||prune, prune||backup, backup||backup; non-instant prune with keep-delete 1 h). Positions are enumerated per scenario in the thorough tier; scenarios are sampled; finer-than-operation overlap is not produced.",
    "Both commands run in one process on separate repository handles; the gate counts operations of the handle's party. Premise: keep-delete exceeds the backup duration.",
    "DESIGN.md section 5 C10")

add("C11", "exploration",
    "runtime differential monitor: parent-based backup vs forced backup of the same source state on clones of the same store (tree ids, full reads, summary counters), synthetic metadata control and real on-disk sources edited in place, partly pruned parents",
    "Held on the generated (parent state(s), edit script, parent options) cases that satisfy the property's premise. Sampling.",
    "Trusts the harness's edit generator to satisfy the premise (every content change bumps mtime); on-disk cases rely on the file system's ctime/inode behaviour.",
    "DESIGN.md section 5 C11")

add("C12", "exploration",
    "runtime monitor with reference models: copy across generated repository pairs (full reads compared, destination check, idempotence from the storage log), merge vs a reference merge on source models, rewrite vs (model minus excluded paths) with an own matcher, repair snapshots (zero storage events when undamaged; kept files byte-identical after pack loss)",
    "Held on the generated cases of each sub-check. Sampling.",
    "Trusts the harness's reference merge (newest mtime wins, directories merged; tie cases skipped) and its matcher for the three generated pattern forms.",
    "DESIGN.md section 5 C12")

add("C13", "exploration",
    "runtime monitor across perturbed executions in worker subprocesses: seeded latency at every backend call, seeded sleeps at pipeline yield points (hook H4), rayon pool sizes 1/2/4/16, pack sizes from one blob per pack up; cross-run equality of tree ids and referenced sets, per-run raw storage consistency, /proc+gdb deadlock classifier; thorough tier adds Miri (16 scheduler seeds, data-race/deadlock/UB detection) and ThreadSanitizer on the same pipeline workload",
    "Held on the executions observed (evidence lists distinct storage event orders and pack partitions seen; a scenario with < 2 distinct orders is inconclusive). Interleavings are sampled, not enumerated; Miri/TSan cover the small sanitizer workload only.",
    "Hang verdicts use logical evidence (all threads sleeping + zero CPU delta), a watchdog expiry alone is inconclusive. Miri runs with tree borrows, isolation off, leaks ignored; zstd C code is not instrumented by TSan.",
    "DESIGN.md sections 4 and 5 C13")

add("C20", "exploration",
    "runtime model-based monitor: random operation programs on LocalBackend, OpenDAL fs and OpenDAL memory checked step by step against a BTreeMap, with planted stray entries; pre-publish hook H5 (visibility and simulated interruption), concurrent reader threads, strace syscall-log checker for the publish protocol",
    "Held on the generated programs and publish cases. Sampling; durability after power loss and remote services are out of reach.",
    "Trusts the BTreeMap model, SHA-256 for completeness checks and strace's -y path decoding.",
    "DESIGN.md section 5 C20")

add("C14", "exploration",
    "runtime monitor: restores into pre-populated sandbox destinations (per-entry mutations incl. symlinks to sentinels outside) compared entry by entry with the snapshot model; before/after manifest of everything outside the destination; dry-run changes nothing; hostile node names through a synthetic source",
    "Held on the generated (snapshot, destination pre-state, options) cases and hostile-name snapshots. Sampling.",
    "Restore runs as root (ownership not compared); pre-existing differing files always carry another mtime (premise when verify_existing is off). The manifest comparison sees persistent changes outside the destination, not transient ones.",
    "DESIGN.md section 5 C14")

add("C18", "exploration",
    "runtime monitor: configuration-space sweep (every ConfigOptions field alone over boundary values, exhaustively; interacting combinations and change sequences sampled) with a panic-capturing smoke run (backup, check, full read-back) for accepted configurations, field-wise diff of the decoded stored config, storage-event check for refused changes; PruneOptions limit/span sweep",
    "Held on the enumerated single-field space and the sampled combinations; every step runs under catch_unwind in an overflow-checking build so arithmetic bugs surface as panics.",
    "Allocation-failure aborts would escape catch_unwind (none observed); compression levels >= 15 are sampled.",
    "DESIGN.md section 5 C18")

add("C19", "exploration",
    "runtime differential monitor: the same store driven alternately through a cached and an uncached handle, every read-type operation executed through both at the same logical point; cache-directory invariant after listings; planted cache faults; never-cached twin repository for end-state comparison",
    "Held on the generated histories (one listed known finding: a by-id read before any listing still serves a file another handle removed). Sampling.",
    "Both handles live in one process; 'another process' is the uncached handle acting between operations of the cached one.",
    "DESIGN.md section 5 C19")

NOT_YET = "check not built yet (work in progress in this round)"

# additions of the mutation round (appended to the technique text; DESIGN.md section 5 "Added in the mutation round")
EXTRA = {
    "C01": "; synthetic sources also with shared inodes and no device id; a second restore over a partly damaged copy",
    "C02": "; removals also judged against the harness's own observation of when a pack became marked; repositories aged beyond keep-delete; second prune inside the keep-delete window; complete recover scenario; compression/pack-size changes mid-history",
    "C03": "; early-delete-index without instant-delete; originals must not be gone before their replacement is stored (rewrite+forget, merge+delete)",
    "C04": "; passwords with blanks through password files and commands; a tampered snapshot must not vanish from a listing silently",
    "C05": "; trust_cache variation; stream-like snapshots (size 0 with content); the documented id-subset rotation must report damaged packs",
    "C07": "; hook H6 cuts runs into several index files",
    "C08": "; packs mixing compressed and uncompressed records",
    "C09": "; probe that a snapshot's own mark decides even with delete-unchanged",
    "C10": "; idle prune against a backup in progress; in-process rayon steal cycles are broken by opening the gate",
    "C11": "; ctime-only changes (synthetic and on disk), older mtimes, parents that lost data or tree packs",
    "C12": "; identical subtrees under two paths, directory-only globs, re-copy into a destination that forgot snapshots and quick-pruned, repair keeps what is healthy",
    "C13": "; hook H6 varied per run; very wide trees; no pack outside the index after prune",
    "C14": "; names ordering before '/', hostile names hidden behind escapes, sub-second mtime differences",
    "C15": "; dry runs judged after the storage is quiet; unindexed packs on append-only repositories",
    "C16": "; marked packs before hot-store repair; restore into a partly filled destination; repair_index with unindexed packs on a rejecting cold store",
    "C17": "; real repositories with marked and lost packs through all four index constructors",
    "C18": "; chained partial config changes",
    "C19": "; truncated and oversized foreign cached packs",
    "C20": "; writes made to fail at the temporary path, empty parts (local backend), sibling directories sharing a type directory's name prefix",
}
for _k, _v in EXTRA.items():
    if _k in CHECKS:
        CHECKS[_k]["technique"] += _v

def main():
    hooks_commits = subprocess.run(["git", "-C", "/repo", "log", "--format=%h %s", "--grep=^verif-hooks"],
                                   capture_output=True, text=True).stdout.strip().splitlines()
    m = {
        "version": 1,
        "setup_cmd": "./setup.sh",
        "hooks": {
            "guard": "cargo feature `verif-hooks` (crates rustic_core and rustic_backend; off by default)",
            "enable": "the harness crate /verif/harness depends on /repo/crates/core and /repo/crates/backend by path with features=[\"verif-hooks\"]; ./check rebuilds it with cargo (offline) before every run",
            "baseline_off_cmd": "cd /repo && cargo test --workspace --no-fail-fast --offline",
            "source_commits": [c.split()[0] for c in hooks_commits],
            "add_only": True,
        },
        "engines": [{
            "name": "rcverif",
            "path": "/verif/harness",
            "serves_properties": sorted(CHECKS),
            "kind_free_text": "Rust harness linking the real rustic_core/rustic_backend (overflow-checking build): generated workloads, instrumented in-memory storage universe (ordered event log, fault injector, gate, delayer, cold-store), independent raw-format parsers and reference models as oracles",
        }],
        "checks": [],
        "notes": "Every check: ./check <id> quick|thorough rebuilds the harness against /repo's working tree, runs the workload, writes evidence/<id>.json, prints VIOLATION/KNOWN-FINDING lines. Exit 0 held / 1 violation / 2 broken (build failure or nothing non-trivial evaluated). Genuine defects: known_findings.json (open = listed, fixed = repaired by a fix: commit in /repo).",
        "not_applicable": [],
    }
    for i in range(1, 21):
        pid = "C%02d" % i
        if pid in CHECKS:
            c = CHECKS[pid]
            m["checks"].append({
                "property_id": pid,
                "quick_cmd": f"./check {pid} quick",
                "thorough_cmd": f"./check {pid} thorough",
                "evidence_file": f"/verif/evidence/{pid}.json",
                "replay_cmd_template": f"./check {pid} --replay {{path}}",
                "engine": "rcverif",
                "level_claimed": {"category": c["cat"], "text": c["text"], "design_ref": c["ref"]},
                "level_note": c["note"],
                "technique": c["technique"],
            })
        else:
            m["not_applicable"].append({"property_id": pid, "reason": NOT_YET})
    with open(os.path.join(ROOT, "MANIFEST.json"), "w") as f:
        json.dump(m, f, indent=1)
        f.write("\n")

if __name__ == "__main__":
    main()
