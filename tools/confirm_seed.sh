#!/bin/bash
# confirm a seeded change: tools/confirm_seed.sh <seed-id> <dir with patch.diff seeded_demo.rs meta.json>
# uses the scratch worktree /tmp/confirm (created on demand, removed by the caller when the round is over)
set -u
ID=$1; SRC=$2
S=${CONFIRM_SLOT:-}; WT=/tmp/confirm$S; TGT=/tmp/confirm_target$S; L=/tmp/confirm$S
if [ ! -d $WT ]; then git -C /repo worktree add -q --detach $WT HEAD || exit 2; fi
cd $WT && git checkout -q --detach $(git -C /repo rev-parse HEAD) && git checkout -q -- . && git clean -fdq crates
OUT=/verif/seeded/$ID; mkdir -p $OUT
cp $SRC/patch.diff $SRC/seeded_demo.rs $SRC/meta.json $OUT/
cp $SRC/seeded_demo.rs crates/core/tests/seeded_demo.rs
export CARGO_TARGET_DIR=$TGT CARGO_NET_OFFLINE=true
R=$OUT/confirm.txt; : > $R
if ! git apply --check $SRC/patch.diff 2>>$R; then echo "PATCH-DOES-NOT-APPLY" | tee -a $R; exit 1; fi
git apply $SRC/patch.diff
echo "== demo WITH change (must fail)" >> $R
cargo test -p rustic_core --test seeded_demo --offline > $L.demo1.log 2>&1; RC1=$?
grep -E "^test |test result" $L.demo1.log >> $R; echo "exit=$RC1" >> $R
echo "== suite WITH change (only the 4 baseline failures + the demo may fail)" >> $R
cargo test --workspace --no-fail-fast --offline > $L.suite.log 2>&1
grep -E "^test .*FAILED|test result: FAILED" $L.suite.log | sort >> $R
# tests that share the user's cache directory (check::test_check::case_6, ...) fail now and then when several suites
# run at the same time; a failure outside the baseline set is re-run alone, with the change still applied
for t in $(L=$L python3 - <<'PY'
import re
base={"test_error_debug","test_error_display","integration::check::test_check::case_3","integration::check::test_check::case_4"}
demo=set(re.findall(r"^test (\S+) \.\.\. ", open(__import__('os').environ['L']+'.demo1.log').read(), re.M))
failed=set(re.findall(r"^test (\S+) \.\.\. FAILED", open(__import__('os').environ['L']+'.suite.log').read(), re.M))
print(' '.join(sorted(failed-base-demo)))
PY
); do
  echo "== re-run alone: $t" >> $R
  if cargo test --workspace --offline -- --exact "$t" > $L.rerun.log 2>&1; then
    echo "passes alone: $t" >> $R; sed -i "s/^test $t \.\.\. FAILED/test $t ... flaky-under-load (passes alone)/" $L.suite.log
  else
    echo "fails alone too: $t" >> $R
  fi
done
git apply -R $SRC/patch.diff
echo "== demo WITHOUT change (must pass)" >> $R
cargo test -p rustic_core --test seeded_demo --offline > $L.demo2.log 2>&1; RC2=$?
grep -E "^test |test result" $L.demo2.log >> $R; echo "exit=$RC2" >> $R
rm -f crates/core/tests/seeded_demo.rs; git clean -fdq crates
OTHER=$(L=$L python3 - <<'PY'
import re
base={"test_error_debug","test_error_display","integration::check::test_check::case_3","integration::check::test_check::case_4"}
demo=set(re.findall(r"^test (\S+) \.\.\. ", open(__import__('os').environ['L']+'.demo1.log').read(), re.M))
failed=set(re.findall(r"^test (\S+) \.\.\. FAILED", open(__import__('os').environ['L']+'.suite.log').read(), re.M))
print(len(failed-base-demo))
PY
)
echo "demo_with_change_exit=$RC1 demo_without_change_exit=$RC2 other_suite_failures=$OTHER" | tee -a $R
if [ $RC1 -ne 0 ] && [ $RC2 -eq 0 ] && [ $OTHER -eq 0 ]; then echo "CONFIRMED $ID" | tee -a $R; exit 0; else echo "NOT-CONFIRMED $ID" | tee -a $R; exit 1; fi
