#!/usr/bin/env python3
"""regenerate the table of section 11 of DESIGN.md from seeded/*/meta.json, confirm.txt and caught.json"""
import json,glob,os,re
rows=[]
for d in sorted(glob.glob('/verif/seeded/*/')):
    id=os.path.basename(d.rstrip('/'))
    try: m=json.load(open(d+'meta.json'))
    except Exception: continue
    conf=open(d+'confirm.txt').read() if os.path.exists(d+'confirm.txt') else ''
    confirmed='CONFIRMED '+id in conf and 'NOT-CONFIRMED' not in conf
    c=json.load(open(d+'caught.json')) if os.path.exists(d+'caught.json') else {}
    caught=[f"{k} ({', '.join(v['signatures'][:2])})" for k,v in sorted(c.items()) if v['exit']==1]
    missed=[k for k,v in sorted(c.items()) if v['exit']==0]
    other=[f"{k}: exit {v['exit']}" for k,v in sorted(c.items()) if v['exit'] not in (0,1)]
    note=open(d+'note.txt').read().strip() if os.path.exists(d+'note.txt') else ''
    def cell(t): return re.sub(r'\s+',' ',str(t)).replace('|','/')
    rows.append(f"| {id}{'' if confirmed else ' (unconfirmed)'} | {cell(m.get('summary',''))[:260]} | {cell(m.get('needs_to_manifest',''))[:260]} | {'; '.join(caught) or 'none'}{' — silent: '+', '.join(missed) if missed else ''}{' — '+'; '.join(other) if other else ''}{' — NOTE: '+cell(note) if note else ''} |")
p='/verif/DESIGN.md'
s=open(p).read()
b='<!-- seeded-table-begin -->\n'; e='<!-- seeded-table-end -->\n'
body=b+'| id | change | needs | caught by (signature) |\n|----|--------|-------|-----------------------|\n'+'\n'.join(rows)+'\n'+e
if b in s:
    s=s[:s.index(b)]+body+s[s.index(e)+len(e):]
else:
    s=s.replace('| id | change | needs | caught by (signature) |\n|----|--------|-------|-----------------------|\nSEEDED_TABLE_ROWS\n',body)
open(p,'w').write(s)
print(len(rows),'rows')
