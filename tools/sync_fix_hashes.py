#!/usr/bin/env python3
"""Re-derive the commit ids of `fixed` entries in known_findings.json from the subjects of the fix: commits in /repo."""
import json, subprocess, re
log = subprocess.run(["git", "-C", "/repo", "log", "--format=%h\t%s"], capture_output=True, text=True).stdout.strip().splitlines()
subj = {l.split("\t", 1)[1]: l.split("\t", 1)[0] for l in log if "\tfix:" in l}
p = "/verif/known_findings.json"
k = json.load(open(p))
for f in k["findings"]:
    if f.get("status") != "fixed":
        continue
    key = f.get("subject")
    if key and key in subj:
        new = subj[key]
        old = f.get("commit", "")
        f["commit"] = new
        f["fixed"] = re.sub(r"(fixed: property=C\d+ )\S+", r"\g<1>" + new, f["fixed"])
json.dump(k, open(p, "w"), indent=1)
missing = [s for s in subj if s not in [f.get("subject") for f in k["findings"]]]
print("fix commits without an entry:", missing)
