#!/bin/bash
# tools/run_against_seed.sh <patch> <check ids...> : apply a seeded patch to /repo, run the checks (quick), undo
P=$1; shift
cd /repo && git apply --check $P || { echo "patch does not apply"; exit 2; }
git -C /repo apply $P
# evidence written while /repo is modified must not survive: keep the committed files aside
rm -rf /tmp/evidence_keep && cp -r /verif/evidence /tmp/evidence_keep
for c in "$@"; do
  cd /verif && timeout 1500 ./check $c ${TIER:-quick} > /tmp/seedrun_$c.log 2>&1; rc=$?
  echo "$c exit=$rc $(grep -c '^VIOLATION' /tmp/seedrun_$c.log) violation line(s); $(grep 'violation \[' /tmp/seedrun_$c.log | sed 's/.*violation \[\([^]]*\)\].*/\1/' | sort | uniq -c | head -4 | tr '\n' ';')"
done
git -C /repo checkout -- .
rm -rf /verif/evidence && mv /tmp/evidence_keep /verif/evidence

