#!/bin/bash
# tools/run_against_seed.sh <seed-id | patch file> <check ids...>
# apply a seeded change to /repo, run the checks (TIER, default quick), undo; for a seed id the outcome is
# merged into /verif/seeded/<id>/caught.json
# the whole window in which /repo is modified runs under an exclusive lock that `check` takes (shared) for its build
if [ -z "${SEEDLOCK:-}" ]; then SEEDLOCK=1 RCV_NOLOCK=1 exec flock /tmp/rcverif_repo.lock "$0" "$@"; fi
A=$1; shift
if [ -f "$A" ]; then P=$A; ID=""; else P=/verif/seeded/$A/patch.diff; ID=$A; fi
cd /repo && git apply --check $P || { echo "patch does not apply"; exit 2; }
git -C /repo apply $P
# evidence written while /repo is modified must not survive: keep the files of the checks run here aside
rm -rf /tmp/evidence_keep && mkdir -p /tmp/evidence_keep
for c in "$@"; do cp /verif/evidence/$c.json /tmp/evidence_keep/ 2>/dev/null; done
for c in "$@"; do
  cd /verif && timeout 1800 ./check $c ${TIER:-quick} > /tmp/seedrun_$c.log 2>&1; rc=$?
  sigs=$(grep 'violation \[' /tmp/seedrun_$c.log | sed 's/.*violation \[\([^]]*\)\].*/\1/' | sort | uniq -c | sort -rn | head -4 | awk '{print $2}' | tr '\n' ' ')
  echo "$c exit=$rc $(grep -c '^VIOLATION' /tmp/seedrun_$c.log) violation line(s); $sigs"
  if [ -n "$ID" ]; then
    python3 - "$ID" "$c" "$rc" "${TIER:-quick}" "${VERIF_SEED:-default}" $sigs <<'PY'
import json,sys,os
id,c,rc,tier,seed,*sigs=sys.argv[1:]
p=f'/verif/seeded/{id}/caught.json'
d=json.load(open(p)) if os.path.exists(p) else {}
d[c]={"exit":int(rc),"tier":tier,"seed":seed,"signatures":sigs}
json.dump(d,open(p,'w'),indent=1,sort_keys=True)
PY
  fi
done
git -C /repo checkout -- .
cp /tmp/evidence_keep/*.json /verif/evidence/ 2>/dev/null; rm -rf /tmp/evidence_keep
