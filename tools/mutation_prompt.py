#!/usr/bin/env python3
"""tools/mutation_prompt.py <Cxx> <tag>  ->  /tmp/prompt<tag>_<Cxx>.txt and prints the worktree path /tmp/mut<tag>_<Cxx>.
The prompt contains the property text, the rules of the mutation round and the summaries of all changes made so far
(so that a new sub-agent looks elsewhere); nothing about /verif's machinery."""
import json,glob,os,sys
c,tag=sys.argv[1],sys.argv[2]
prop=[json.loads(l) for l in open('/verif/properties.jsonl') if json.loads(l)['id']==c][0]
wt=f'/tmp/mut{tag}_{c}'; tgt=f'/tmp/mut{tag}_target_{c}'
prev=[]
for d in sorted(glob.glob('/verif/seeded/*/meta.json'))+sorted(glob.glob('/tmp/mut*_C*/seeded/meta.json')):
    try:
        x=json.load(open(d)).get('summary','')
        if x and x not in prev: prev.append(x)
    except Exception: pass
variety=""
if prev:
    variety="\nIMPORTANT - VARIETY: the following changes have already been made by others (for this and for related properties); do NOT repeat any of them or a minor variant, pick a different clause of YOUR property and a different part of the code:\n"+"\n".join(f"  - {x[:280]}" for x in prev)+"\n"
s=f"""You are testing how robust a codebase's correctness is. You work ONLY inside the git worktree {wt} (a checkout of the Rust library rustic_core, which implements the restic backup repository format). Do not read or use anything outside {wt} except the Rust toolchain and the cargo registry cache; in particular never look at /verif or /repo.

PROPERTY (this is the behaviour the library is supposed to guarantee):
  Title: {prop['title']}
  Statement: {prop['statement']}
  Scope: {prop['quantifier']['text']}

YOUR TASK: make ONE small, realistic source change inside {wt}/crates (the kind of mistake a maintainer could plausibly make in a refactoring or "optimisation": a dropped condition, a wrong comparison, a reordered pair of operations, a missing flush, an off-by-one, a wrong key in a map, ...) such that
  (a) the crate still compiles,
  (b) the existing test suite still passes exactly as before (run: cd {wt} && CARGO_TARGET_DIR={tgt} cargo test --workspace --no-fail-fast --offline ; NOTE: on the unmodified tree exactly 4 tests fail already and must keep failing the same way: errors::test_error_debug, errors::test_error_display, integration check::test_check::case_3 and case_4; everything else must pass),
  (c) the property above is violated, but NOT in a way that ordinary use would expose at once: the violation must need something specific to manifest - a particular interleaving or timing, a crash or storage fault at a particular point, a multi-step sequence of operations, an unusual input (boundary size, special file name, colliding content, particular option combination), or two cooperating sites that each look fine alone.
Do not touch tests, do not add cfg flags, do not change public signatures. Prefer a change of 1-10 lines in one or two files.
The tree contains a cargo feature `verif-hooks` (module crates/core/src/verif.rs and a few cfg-guarded lines); leave those alone and do not rely on them.
{variety}
THEN write a demonstration: a new Rust integration test file {wt}/crates/core/tests/seeded_demo.rs (self-contained; it may use the in-memory backend from the rustic_testing crate, rustic_core's public API, tempfile, etc. - look at crates/core/tests/integration/*.rs for how repositories are set up) that FAILS with your change and PASSES without it. Verify both: run it with your change (must fail), then take your source change out with `git diff -- crates > /tmp/my_change_{tag}_{c}.diff; git apply -R /tmp/my_change_{tag}_{c}.diff` (keep the test; do NOT use git stash - the stash is shared with other worktrees), run it again (must pass), then put the change back with `git apply /tmp/my_change_{tag}_{c}.diff`.
Run tests with: cd {wt} && CARGO_TARGET_DIR={tgt} cargo test -p rustic_core --test seeded_demo --offline

DELIVERABLES (write them, then stop):
  1. {wt}/seeded/patch.diff  = output of `git diff -- crates` for your source change ONLY (not the demo test).
  2. {wt}/seeded/seeded_demo.rs = copy of the demonstration test.
  3. {wt}/seeded/meta.json = {{"property": "{c}", "summary": "<one sentence: what was changed>", "needs_to_manifest": "<what specific situation is needed>", "ran": ["<commands you ran and their outcome>"]}}
When finished, delete the build directory {tgt} (rm -rf) to free disk space, leave the worktree as it is, and reply with a 5-line summary (what you changed, why the suite does not notice, what the demo does, results of the three runs: suite with change, demo with change, demo without change).
Budget: be efficient - one good mutant is enough; the first build takes a few minutes.
NOTE: the same suite may be running elsewhere on this machine at the same time; a few integration tests (e.g. check::test_check::case_6 / case_7) share a cache directory and can fail spuriously under load - re-run a failing test alone (cargo test ... -- --exact <name>) before drawing conclusions.
"""
open(f'/tmp/prompt{tag}_{c}.txt','w').write(s)
print(wt)
